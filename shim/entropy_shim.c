/* LD_PRELOAD shim for engine E3: makes the entropy a real rustc process (and the proc-macro
 * dylibs it loads) gets from the OS a pure function of VERIF_ENTROPY, so that the hasher keys of
 * every std HashMap inside the shipped educe proc macro are decided by the simulator.
 * std reaches getrandom(2) through the libc symbol (weak linkage, documented as interposable);
 * /dev/urandom is the fallback path and is not taken when getrandom succeeds.
 * Each call returns the next block of a counter-mode SplitMix64 stream keyed by the seed and by a
 * per-process call counter, so thread k of a process always sees the same bytes for a given seed
 * as long as threads first touch a HashMap in the same order (rustc -Zthreads=1: they do). */
#define _GNU_SOURCE
#include <stdint.h>
#include <stdlib.h>
#include <sys/types.h>

static uint64_t mix64(uint64_t z) {
    z += 0x9E3779B97F4A7C15ull;
    z = (z ^ (z >> 30)) * 0xBF58476D1CE4E5B9ull;
    z = (z ^ (z >> 27)) * 0x94D049BB133111EBull;
    return z ^ (z >> 31);
}

static uint64_t calls = 0;

ssize_t getrandom(void *buf, size_t len, unsigned int flags) {
    (void)flags;
    const char *e = getenv("VERIF_ENTROPY");
    uint64_t seed = e ? strtoull(e, 0, 10) : 0;
    uint64_t call = __atomic_fetch_add(&calls, 1, __ATOMIC_SEQ_CST);
    unsigned char *p = (unsigned char *)buf;
    uint64_t ctr = 0;
    size_t i = 0;
    while (i < len) {
        uint64_t w = mix64(seed ^ mix64(call * 0x100000001B3ull + ctr));
        for (int b = 0; b < 8 && i < len; b++, i++) p[i] = (unsigned char)(w >> (8 * b));
        ctr++;
    }
    return (ssize_t)len;
}

/* Wall clock and pid as the proc macro (and rustc) see them: VERIF_CLOCK_OFFSET_S shifts
 * CLOCK_REALTIME by that many seconds, VERIF_PID replaces the pid. Unset = real values. */
#include <time.h>
#include <unistd.h>
#include <sys/syscall.h>

int clock_gettime(clockid_t clk, struct timespec *ts) {
    long r = syscall(SYS_clock_gettime, clk, ts);
    if (r == 0 && clk == CLOCK_REALTIME && ts) {
        const char *e = getenv("VERIF_CLOCK_OFFSET_S");
        if (e) ts->tv_sec += strtoll(e, 0, 10);
    }
    return (int)r;
}

pid_t getpid(void) {
    const char *e = getenv("VERIF_PID");
    if (e && *e) return (pid_t)strtol(e, 0, 10);
    return (pid_t)syscall(SYS_getpid);
}

int getentropy(void *buf, size_t len) {
    return getrandom(buf, len, 0) == (ssize_t)len ? 0 : -1;
}
