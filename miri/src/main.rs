//! E4: the same in-process expansion as E1, but inside Miri's abstract machine, which seeds OS
//! entropy *and* every allocation's address from `-Zmiri-seed`. No symbol interposition here:
//! an independent mechanism controls the same nondeterminism sources.
//! Prints one line per (thread, input): `OUT <thread> <input-hash> <outcome-hash>`; the harness
//! compares the lines of different seeds. Inputs: ../build/miri_inputs.txt (written by educe-sim).

use std::collections::HashMap;

const INPUTS: &str = include_str!("../../build/miri_inputs.txt");
const SEP: &str = "\n//----8<----\n";

fn fnv64(s: &str) -> u64 {
    let mut h: u64 = 0xcbf2_9ce4_8422_2325;
    for b in s.as_bytes() {
        h ^= *b as u64;
        h = h.wrapping_mul(0x0000_0100_0000_01b3);
    }
    h
}

fn canary() -> String {
    let mut m: HashMap<u32, ()> = HashMap::new();
    for k in 0..4u32 {
        m.insert(k, ());
    }
    m.keys().map(|k| k.to_string()).collect::<Vec<_>>().join("")
}

fn expand(text: &str) -> String {
    let r = std::panic::catch_unwind(|| {
        let ts: proc_macro2::TokenStream = match text.parse() {
            Ok(ts) => ts,
            Err(e) => return format!("LEXERR:{e}"),
        };
        educe::educe_derive_verif(ts).to_string()
    });
    match r {
        Ok(s) => s,
        Err(p) => {
            let msg = p.downcast_ref::<&str>().map(|s| s.to_string()).or(p.downcast_ref::<String>().cloned()).unwrap_or_default();
            format!("PANIC:{msg}")
        },
    }
}

fn pass(tag: &str, full: bool) {
    println!("CANARY {tag} {}", canary());
    for text in INPUTS.split(SEP) {
        if text.trim().is_empty() {
            continue;
        }
        let out = expand(text);
        println!("OUT {tag} {:016x} {:016x}", fnv64(text), fnv64(&out));
        if full {
            println!("TEXT {:016x} {}", fnv64(text), out.replace('\n', " "));
        }
    }
}

fn main() {
    std::panic::set_hook(Box::new(|_| {}));
    let full = std::env::args().any(|a| a == "--full");
    pass("main", full);
    // a second thread: fresh thread-local hasher keys, different allocation addresses
    // (it also runs with the history the main thread left in process-global state)
    std::thread::spawn(move || pass("thread", false)).join().unwrap();
}
