//! Minimal JSON value, writer and parser (replay files, shard results, evidence). Objects keep
//! insertion order; nothing here hashes.

use std::fmt::Write as _;

#[derive(Clone, Debug, PartialEq)]
pub enum J {
    Null,
    Bool(bool),
    Int(i128),
    Num(f64),
    Str(String),
    Arr(Vec<J>),
    Obj(Vec<(String, J)>),
}

impl J {
    pub fn obj() -> J {
        J::Obj(vec![])
    }

    pub fn set(mut self, k: &str, v: J) -> J {
        if let J::Obj(ref mut o) = self {
            if let Some(e) = o.iter_mut().find(|(kk, _)| kk == k) {
                e.1 = v;
            } else {
                o.push((k.to_string(), v));
            }
        }
        self
    }

    pub fn put(&mut self, k: &str, v: J) {
        if let J::Obj(ref mut o) = self {
            if let Some(e) = o.iter_mut().find(|(kk, _)| kk == k) {
                e.1 = v;
            } else {
                o.push((k.to_string(), v));
            }
        }
    }

    pub fn get(&self, k: &str) -> Option<&J> {
        match self {
            J::Obj(o) => o.iter().find(|(kk, _)| kk == k).map(|(_, v)| v),
            _ => None,
        }
    }

    pub fn str(&self) -> Option<&str> {
        match self {
            J::Str(s) => Some(s),
            _ => None,
        }
    }

    pub fn int(&self) -> Option<i128> {
        match self {
            J::Int(i) => Some(*i),
            J::Num(f) => Some(*f as i128),
            _ => None,
        }
    }

    pub fn u64(&self) -> Option<u64> {
        self.int().map(|i| i as u64)
    }

    pub fn arr(&self) -> Option<&Vec<J>> {
        match self {
            J::Arr(a) => Some(a),
            _ => None,
        }
    }

    pub fn s(v: impl Into<String>) -> J {
        J::Str(v.into())
    }

    pub fn i(v: impl Into<i128>) -> J {
        J::Int(v.into())
    }

    pub fn to_string_pretty(&self) -> String {
        let mut s = String::new();
        self.write(&mut s, 0, true);
        s.push('\n');
        s
    }

    pub fn to_string_compact(&self) -> String {
        let mut s = String::new();
        self.write(&mut s, 0, false);
        s
    }

    fn write(&self, s: &mut String, ind: usize, pretty: bool) {
        match self {
            J::Null => s.push_str("null"),
            J::Bool(b) => s.push_str(if *b { "true" } else { "false" }),
            J::Int(i) => {
                let _ = write!(s, "{i}");
            },
            J::Num(f) => {
                if f.is_finite() {
                    let t = format!("{f}");
                    s.push_str(&t);
                    if !t.contains(['.', 'e', 'E']) {
                        s.push_str(".0");
                    }
                } else {
                    s.push_str("null");
                }
            },
            J::Str(t) => write_str(s, t),
            J::Arr(a) => {
                if a.is_empty() {
                    s.push_str("[]");
                    return;
                }
                s.push('[');
                for (n, v) in a.iter().enumerate() {
                    if n > 0 {
                        s.push(',');
                    }
                    if pretty {
                        s.push('\n');
                        s.push_str(&" ".repeat(ind + 1));
                    }
                    v.write(s, ind + 1, pretty);
                }
                if pretty {
                    s.push('\n');
                    s.push_str(&" ".repeat(ind));
                }
                s.push(']');
            },
            J::Obj(o) => {
                if o.is_empty() {
                    s.push_str("{}");
                    return;
                }
                s.push('{');
                for (n, (k, v)) in o.iter().enumerate() {
                    if n > 0 {
                        s.push(',');
                    }
                    if pretty {
                        s.push('\n');
                        s.push_str(&" ".repeat(ind + 1));
                    }
                    write_str(s, k);
                    s.push(':');
                    if pretty {
                        s.push(' ');
                    }
                    v.write(s, ind + 1, pretty);
                }
                if pretty {
                    s.push('\n');
                    s.push_str(&" ".repeat(ind));
                }
                s.push('}');
            },
        }
    }

    pub fn parse(text: &str) -> Result<J, String> {
        let mut p = P { b: text.as_bytes(), i: 0 };
        p.ws();
        let v = p.value()?;
        p.ws();
        if p.i != p.b.len() {
            return Err(format!("trailing data at {}", p.i));
        }
        Ok(v)
    }
}

fn write_str(s: &mut String, t: &str) {
    s.push('"');
    for c in t.chars() {
        match c {
            '"' => s.push_str("\\\""),
            '\\' => s.push_str("\\\\"),
            '\n' => s.push_str("\\n"),
            '\r' => s.push_str("\\r"),
            '\t' => s.push_str("\\t"),
            c if (c as u32) < 0x20 => {
                let _ = write!(s, "\\u{:04x}", c as u32);
            },
            c => s.push(c),
        }
    }
    s.push('"');
}

struct P<'a> {
    b: &'a [u8],
    i: usize,
}

impl<'a> P<'a> {
    fn ws(&mut self) {
        while self.i < self.b.len() && matches!(self.b[self.i], b' ' | b'\n' | b'\r' | b'\t') {
            self.i += 1;
        }
    }

    fn value(&mut self) -> Result<J, String> {
        self.ws();
        if self.i >= self.b.len() {
            return Err("eof".into());
        }
        match self.b[self.i] {
            b'{' => {
                self.i += 1;
                let mut o = vec![];
                self.ws();
                if self.peek() == Some(b'}') {
                    self.i += 1;
                    return Ok(J::Obj(o));
                }
                loop {
                    self.ws();
                    let k = self.string()?;
                    self.ws();
                    if self.peek() != Some(b':') {
                        return Err(format!("expected ':' at {}", self.i));
                    }
                    self.i += 1;
                    let v = self.value()?;
                    o.push((k, v));
                    self.ws();
                    match self.peek() {
                        Some(b',') => self.i += 1,
                        Some(b'}') => {
                            self.i += 1;
                            return Ok(J::Obj(o));
                        },
                        _ => return Err(format!("expected ',' or '}}' at {}", self.i)),
                    }
                }
            },
            b'[' => {
                self.i += 1;
                let mut a = vec![];
                self.ws();
                if self.peek() == Some(b']') {
                    self.i += 1;
                    return Ok(J::Arr(a));
                }
                loop {
                    a.push(self.value()?);
                    self.ws();
                    match self.peek() {
                        Some(b',') => self.i += 1,
                        Some(b']') => {
                            self.i += 1;
                            return Ok(J::Arr(a));
                        },
                        _ => return Err(format!("expected ',' or ']' at {}", self.i)),
                    }
                }
            },
            b'"' => Ok(J::Str(self.string()?)),
            b't' if self.b[self.i..].starts_with(b"true") => {
                self.i += 4;
                Ok(J::Bool(true))
            },
            b'f' if self.b[self.i..].starts_with(b"false") => {
                self.i += 5;
                Ok(J::Bool(false))
            },
            b'n' if self.b[self.i..].starts_with(b"null") => {
                self.i += 4;
                Ok(J::Null)
            },
            _ => {
                let st = self.i;
                while self.i < self.b.len()
                    && matches!(self.b[self.i], b'-' | b'+' | b'.' | b'e' | b'E' | b'0'..=b'9')
                {
                    self.i += 1;
                }
                let t = std::str::from_utf8(&self.b[st..self.i]).unwrap_or("");
                if let Ok(i) = t.parse::<i128>() {
                    Ok(J::Int(i))
                } else if let Ok(f) = t.parse::<f64>() {
                    Ok(J::Num(f))
                } else {
                    Err(format!("bad token at {st}"))
                }
            },
        }
    }

    fn peek(&self) -> Option<u8> {
        self.b.get(self.i).copied()
    }

    fn string(&mut self) -> Result<String, String> {
        if self.peek() != Some(b'"') {
            return Err(format!("expected string at {}", self.i));
        }
        self.i += 1;
        let mut out: Vec<u8> = vec![];
        while self.i < self.b.len() {
            let c = self.b[self.i];
            self.i += 1;
            match c {
                b'"' => return String::from_utf8(out).map_err(|e| e.to_string()),
                b'\\' => {
                    let e = *self.b.get(self.i).ok_or("eof in escape")?;
                    self.i += 1;
                    match e {
                        b'n' => out.push(b'\n'),
                        b'r' => out.push(b'\r'),
                        b't' => out.push(b'\t'),
                        b'b' => out.push(8),
                        b'f' => out.push(12),
                        b'u' => {
                            let h = std::str::from_utf8(self.b.get(self.i..self.i + 4).ok_or("eof in \\u")?)
                                .map_err(|e| e.to_string())?;
                            let mut cp = u32::from_str_radix(h, 16).map_err(|e| e.to_string())?;
                            self.i += 4;
                            if (0xD800..0xDC00).contains(&cp) && self.b[self.i..].starts_with(b"\\u") {
                                let h2 = std::str::from_utf8(&self.b[self.i + 2..self.i + 6]).map_err(|e| e.to_string())?;
                                let lo = u32::from_str_radix(h2, 16).map_err(|e| e.to_string())?;
                                self.i += 6;
                                cp = 0x10000 + ((cp - 0xD800) << 10) + (lo - 0xDC00);
                            }
                            let ch = char::from_u32(cp).unwrap_or('\u{FFFD}');
                            let mut buf = [0u8; 4];
                            out.extend_from_slice(ch.encode_utf8(&mut buf).as_bytes());
                        },
                        other => out.push(other),
                    }
                },
                c => out.push(c),
            }
        }
        Err("unterminated string".into())
    }
}
