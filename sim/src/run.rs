//! One simulated run ("build farm"): plan a scenario from a seed, execute it, check the oracle.
//!
//! The plan is a pure function of (run seed, corpus, tier): every choice is drawn from the run's
//! PRNG *before* anything executes, so the schedule never depends on timing or on outcomes.

use std::collections::{BTreeMap, BTreeSet};

use crate::corpus::Input;
use crate::gen::{self, GenOpts};
use crate::prng::Rng;
use crate::proc::{HResult, HostStats, Proc};
use crate::scenario::{apply, fnv64, Obs, Op, Scenario, World};

pub const KINDS: [&str; 15] = [
    "entropy_reseed",
    "worker_restart",
    "process_restart",
    "err_predecessor",
    "panic_predecessor",
    "same_ident_predecessor",
    "heap_fragment",
    "clock_jump",
    "clock_backwards",
    "pid_change",
    "env_noise",
    "address_slide",
    "fs_wipe",
    "reformat",
    "fs_tear",
];

/// the pinned tree panics on this one (C17's business); here it is history for other expansions
pub const PANIC_POLLUTER: &str =
    "#[derive(Educe)]\n#[educe(Hash())]\nunion PanicU { f1: u8, f2: u16 }\n";

#[derive(Clone, Debug)]
pub struct Cfg {
    pub n_targets: usize,
    pub n_polluters: usize,
    pub n_procs: usize,
    pub workers_per_proc: usize,
    pub steps: usize,
    pub entropy_mode: u8, // 0 fresh 64-bit, 1 all zero (= reference), 2 small 0..4
    pub worker_restart: bool,
    pub process_restart: bool,
    pub heap_fragment: bool,
    pub clock_jump: bool,
    pub pid_change: bool,
    pub env_noise: bool,
    pub address_slide: bool,
    pub fs_wipe: bool,
    pub reformat: bool,
    pub history_burst: bool,
    pub corpus_pct: u64,
}

pub struct Plan {
    pub seed: u64,
    pub cfg: Cfg,
    pub scenario: Scenario,
    /// global interleaving: world index of the next op to execute
    pub order: Vec<usize>,
    /// per input: role
    pub roles: Vec<&'static str>,
    /// per input: identifier of the type it defines
    pub names: Vec<String>,
    pub planned_kinds: BTreeMap<&'static str, u64>,
}

fn env_noise(rng: &mut Rng) -> Vec<(String, String)> {
    let mut env = vec![];
    let cands: [(&str, &[&str]); 28] = [
        ("SOURCE_DATE_EPOCH", &["0", "1700000000", "4102444800"]),
        ("LANG", &["C", "en_US.UTF-8", "tr_TR.UTF-8", "ja_JP.eucJP"]),
        ("LC_ALL", &["C", "POSIX", "de_DE.UTF-8"]),
        ("HOME", &["$SANDBOX/home", "$SANDBOX/home2", "$SANDBOX/nonexistent"]),
        ("TMPDIR", &["$SANDBOX/tmp", "$SANDBOX/tmp2"]),
        ("TZ", &["UTC", "Asia/Tokyo", "America/Los_Angeles"]),
        ("CARGO_PKG_NAME", &["a", "educe", "zzz"]),
        ("CARGO_CRATE_NAME", &["a", "my_crate", "zzz"]),
        ("CARGO_PKG_VERSION", &["0.1.0", "12.3.4-beta.1"]),
        ("CARGO_MANIFEST_DIR", &["$SANDBOX/ws/a", "$SANDBOX/ws/b"]),
        ("CARGO_TARGET_DIR", &["$SANDBOX/target", "$SANDBOX/target2"]),
        ("OUT_DIR", &["$SANDBOX/target/out-1", "$SANDBOX/target/out-2"]),
        ("PROFILE", &["debug", "release"]),
        ("OPT_LEVEL", &["0", "3"]),
        ("DEBUG", &["true", "false"]),
        ("RUSTFLAGS", &["", "-Cdebuginfo=2", "--cfg foo"]),
        ("TERM", &["dumb", "xterm-256color"]),
        ("NO_COLOR", &["1", ""]),
        ("USER", &["root", "builder", "nobody"]),
        ("HOSTNAME", &["ci-1", "laptop"]),
        ("CI", &["true", "1"]),
        ("CARGO_PKG_RUST_VERSION", &["", "1.56", "1.83", "1.90.0"]),
        ("CARGO_PRIMARY_PACKAGE", &["1"]),
        ("CARGO_CFG_TARGET_POINTER_WIDTH", &["32", "64"]),
        ("RUSTC_WRAPPER", &["sccache", ""]),
        ("DOCS_RS", &["1"]),
        ("VERIF_CWD", &["cwd", "cwd-b", "ws/a"]),
        ("VERIF_EXE_NAME", &["rustc", "rust-analyzer-proc-macro-srv", "clippy-driver"]),
    ];
    for (k, vs) in cands {
        if rng.chance(1, 2) {
            env.push((k.to_string(), rng.pick(vs).to_string()));
        }
    }
    // the command line of the simulated compiler process: 0..5 fragments of realistic rustc /
    // cargo invocations (crate name, edition, how diagnostics are rendered, optimisation, cfgs, ..)
    if rng.chance(1, 2) {
        const FRAGS: [&str; 20] = [
            "--crate-name a",
            "--crate-name zzz",
            "--edition 2021",
            "--edition=2018",
            "--error-format=short",
            "--error-format=json",
            "--error-format=human",
            "--json=diagnostic-short,artifacts",
            "--json=diagnostic-rendered-ansi,future-incompat",
            "--color=always",
            "--color never",
            "-C metadata=0123abcd",
            "-C opt-level=3",
            "-C debuginfo=2",
            "--cfg test",
            "--cfg feature=\"std\"",
            "--test",
            "--cap-lints allow",
            "--crate-type proc-macro",
            "-Zunpretty=expanded",
        ];
        let mut parts: Vec<&str> = vec![];
        for _ in 0..rng.range(1, 5) {
            parts.push(FRAGS[rng.usize(FRAGS.len())]);
        }
        env.push(("VERIF_ARGV".to_string(), parts.join(" ")));
    }
    if rng.chance(1, 2) {
        env.push((format!("VERIF_NOISE_{}", rng.below(1000)), format!("{}", rng.next_u64())));
    }
    // names nobody listed: the getenv seam reports a per-process subset of unset names as set
    env.push(("VERIF_ENV_SEED".to_string(), (1 + rng.below(1 << 32)).to_string()));
    env.push(("VERIF_NCPU".to_string(), rng.pick(&[1u64, 2, 4, 8, 16, 64, 256]).to_string()));
    // how fast time passes while a worker is looking (0 = frozen, like the reference world)
    env.push(("VERIF_CLOCK_STEP_NS".to_string(), rng.pick(&[0u64, 1, 1_000, 10_000_000, 3_000_000_000]).to_string()));
    env.push(("VERIF_ISATTY".to_string(), rng.pick(&[1u64, 2]).to_string()));
    env
}

fn swarm(rng: &mut Rng, thorough: bool) -> Cfg {
    let on = |rng: &mut Rng| rng.chance(7, 10);
    // "proc-macro server" runs: one long-lived process and worker, many distinct inputs, a long
    // history — state that only builds up over dozens of expansions (bounded caches, interners)
    // thorough only, one run in 500: a process that lives for thousands of expansions
    let marathon = thorough && rng.chance(1, 500);
    if marathon || rng.chance(2, 25) {
        return Cfg {
            n_targets: rng.range(2, 6) as usize,
            n_polluters: rng.range(15, 40) as usize,
            n_procs: 1,
            workers_per_proc: rng.range(1, 2) as usize,
            steps: if marathon { rng.range(2000, 5000) } else if thorough { rng.range(100, 400) } else { rng.range(80, 200) } as usize,
            entropy_mode: if rng.chance(1, 2) { 1 } else { 0 },
            worker_restart: false,
            process_restart: false,
            heap_fragment: on(rng),
            clock_jump: on(rng),
            pid_change: on(rng),
            env_noise: on(rng),
            address_slide: on(rng),
            fs_wipe: false,
            reformat: on(rng),
            history_burst: true,
            corpus_pct: *rng.pick(&[0, 30, 60]),
        };
    }
    Cfg {
        n_targets: rng.range(1, 6) as usize,
        n_polluters: rng.below(5) as usize,
        n_procs: rng.range(1, 3) as usize,
        workers_per_proc: rng.range(1, 4) as usize,
        steps: if thorough { rng.range(4, 90) } else { rng.range(4, 60) } as usize,
        entropy_mode: match rng.below(10) {
            0 => 1,
            1 => 2,
            _ => 0,
        },
        worker_restart: on(rng),
        process_restart: on(rng),
        heap_fragment: on(rng),
        clock_jump: on(rng),
        pid_change: on(rng),
        env_noise: on(rng),
        address_slide: on(rng),
        fs_wipe: on(rng),
        reformat: on(rng),
        history_burst: on(rng),
        corpus_pct: *rng.pick(&[0, 30, 60, 60, 90, 100]),
    }
}

struct Slot {
    world: Option<usize>,
    gen: u64,
    /// worker slot -> (worker id, generation) if alive
    workers: Vec<Option<u64>>,
    next_wid: u64,
}

pub fn plan(seed: u64, corpus: &[Input], thorough: bool) -> Plan {
    let mut rng = Rng::new(seed);
    let cfg = swarm(&mut rng, thorough);
    let mut kinds: BTreeMap<&'static str, u64> = BTreeMap::new();
    let mut bump = |k: &'static str| *kinds.entry(k).or_insert(0) += 1;

    // ---- inputs
    let mut inputs: Vec<String> = vec![];
    let mut roles: Vec<&'static str> = vec![];
    let mut names: Vec<String> = vec![];
    let mut fault_classes: Vec<Vec<&'static str>> = vec![];
    // one run in 20 is a *probe run* when the tree has parameter words no example uses: every
    // target probes the same (word, trait) pair in another form / level / kind of item
    let probe_run = if rng.chance(1, 20) { gen::probe_pair(&mut rng) } else { None };
    let n_targets_planned = if probe_run.is_some() { 6 } else { cfg.n_targets };
    for t in 0..n_targets_planned {
        if let Some((word, tr)) = &probe_run {
            let name = format!("G{}", t);
            inputs.push(gen::param_probe_for(&mut rng, &name, word, tr));
            names.push(name);
            fault_classes.push(vec![]);
            roles.push("target/probe");
            continue;
        }
        if !corpus.is_empty() && rng.chance(cfg.corpus_pct, 100) {
            let c = rng.pick(corpus);
            inputs.push(c.text.clone());
            names.push(c.name.clone());
            fault_classes.push(vec![]);
            roles.push("target/corpus");
        } else {
            let name = if rng.chance(1, 3) { gen::shared_type_name(&mut rng) } else { format!("G{}", t) };
            let opts = GenOpts { error_pct: 25, into_heavy: rng.chance(3, 10) };
            let (text, classes) = if rng.chance(1, 5) {
                // a parameter probe (undocumented aliases, parameters a change has just introduced)
                (gen::param_probe(&mut rng, &name), vec![])
            } else {
                gen::generate_ex(&mut rng, &name, &opts, &[])
            };
            inputs.push(text);
            names.push(name);
            fault_classes.push(classes);
            roles.push("target/generated");
        }
    }
    let n_targets = inputs.len();
    for _ in 0..cfg.n_polluters {
        match rng.below(6) {
            0 => {
                let k = rng.usize(n_targets);
                let name = names[k].clone();
                inputs.push(gen::same_name_variant(&mut rng, &name));
                roles.push("polluter/same_ident");
            },
            1 | 5 => {
                // the user edited a target and it is expanded again (half of the time: the biggest one)
                let k = if rng.chance(1, 2) {
                    (0..n_targets).max_by_key(|k| inputs[*k].len()).unwrap_or(0)
                } else {
                    rng.usize(n_targets)
                };
                match gen::edited_copy(&mut rng, &inputs[k]) {
                    Some(t) => {
                        // sometimes the edit goes on: v1 -> v2 -> v3
                        let again = if rng.chance(1, 3) { gen::edited_copy(&mut rng, &t) } else { None };
                        inputs.push(t);
                        roles.push("polluter/edited_copy");
                        if let Some(t2) = again {
                            inputs.push(t2);
                            roles.push("polluter/edited_copy");
                        }
                    },
                    None => {
                        let name = names[k].clone();
                        inputs.push(gen::same_name_variant(&mut rng, &name));
                        roles.push("polluter/same_ident");
                    },
                }
            },
            2 => {
                // an erroneous input; if a target is erroneous, often an *error sibling*: the same
                // kind of mistake made again, differently (state left by one rejection meets the next)
                let opts = GenOpts { error_pct: 100, into_heavy: rng.chance(1, 2) };
                let with_faults: Vec<usize> = (0..n_targets).filter(|k| !fault_classes[*k].is_empty()).collect();
                if !with_faults.is_empty() && rng.chance(2, 3) {
                    let k = *rng.pick(&with_faults);
                    let class = *rng.pick(&fault_classes[k]);
                    inputs.push(gen::generate_ex(&mut rng, "PErr", &opts, &[class]).0);
                    roles.push("polluter/err_sibling");
                } else {
                    inputs.push(gen::generate(&mut rng, "PErr", &opts));
                    roles.push("polluter/err");
                }
            },
            3 => {
                inputs.push(PANIC_POLLUTER.to_string());
                roles.push("polluter/panic");
            },
            _ => {
                if corpus.is_empty() {
                    inputs.push(gen::generate(&mut rng, "PGen", &GenOpts { error_pct: 0, into_heavy: false }));
                } else {
                    inputs.push(rng.pick(corpus).text.clone());
                }
                roles.push("polluter/other");
            },
        }
    }
    let polluters: Vec<usize> = (n_targets..inputs.len()).collect();

    // ---- world 0: the canonical reference world
    let mut worlds: Vec<World> = vec![];
    let mut order: Vec<usize> = vec![];
    {
        let mut ops = vec![];
        for t in 0..n_targets {
            ops.push(Op::Spawn { w: t as u64, entropy: 0 });
            ops.push(Op::Expand { w: t as u64, input: t, fmt: 0 });
            ops.push(Op::Kill { w: t as u64 });
        }
        order.extend(std::iter::repeat(0).take(ops.len()));
        worlds.push(World { name: "W0".into(), env: vec![], ops });
    }

    // ---- simulated processes
    let mut slots: Vec<Slot> = (0..cfg.n_procs)
        .map(|_| Slot { world: None, gen: 0, workers: vec![None; cfg.workers_per_proc], next_wid: 0 })
        .collect();
    // W0 runs at the canonical time (the hosts' default, 1_700_000_000); other worlds start anywhere
    // from 1970 to past 2100, including the 2038 boundary
    let mut clock_s: i64 = 1_700_000_000;

    let draw_entropy = |rng: &mut Rng, mode: u8| -> u64 {
        match mode {
            1 => 0,
            2 => rng.below(5),
            _ => rng.next_u64(),
        }
    };

    for _step in 0..cfg.steps {
        let si = rng.usize(slots.len());
        // process restart
        if cfg.process_restart && slots[si].world.is_some() && rng.chance(3, 100) {
            slots[si].world = None;
            slots[si].gen += 1;
            for w in slots[si].workers.iter_mut() {
                *w = None;
            }
            bump("process_restart");
        }
        if slots[si].world.is_none() {
            let mut env = if cfg.env_noise {
                bump("env_noise");
                env_noise(&mut rng)
            } else {
                vec![]
            };
            if cfg.address_slide {
                // simulated ASLR: page-aligned shift of the mmap area (0..1 GiB) and of the main heap
                bump("address_slide");
                // (worker malloc arenas are 64 MiB aligned: whole multiples move them, the rest moves stacks)
                env.push(("VERIF_SLIDE_MMAP".to_string(), (rng.below(24) * (64 << 20) + rng.below(16_384) * 4096).to_string()));
                env.push(("VERIF_SLIDE_BRK".to_string(), (rng.below(256) * 4096).to_string()));
            }
            let wi = worlds.len();
            worlds.push(World { name: format!("p{}g{}", si, slots[si].gen), env, ops: vec![] });
            slots[si].world = Some(wi);
            if cfg.clock_jump {
                clock_s = match rng.below(8) {
                    0 => 0,
                    1 => 946_684_800,
                    2 => 2_147_483_647 - rng.below(3) as i64,
                    3 => 2_147_483_648 + rng.below(1000) as i64,
                    4 => 4_102_444_800 + rng.below(86_400 * 365) as i64,
                    5 => -(rng.below(86_400 * 365 * 30) as i64),
                    _ => rng.below(1 << 32) as i64,
                };
                worlds[wi].ops.push(Op::Clock { s: clock_s, ns: rng.below(1_000_000_000) as i64 });
                order.push(wi);
                bump("clock_jump");
            }
            if cfg.pid_change {
                let pid = rng.range(2, 4_000_000) as i64;
                worlds[wi].ops.push(Op::Pid { pid });
                order.push(wi);
                bump("pid_change");
            }
        }
        let wi = slots[si].world.unwrap();
        let ws = rng.usize(cfg.workers_per_proc);
        // worker restart
        if cfg.worker_restart && slots[si].workers[ws].is_some() && rng.chance(1, 10) {
            let wid = slots[si].workers[ws].take().unwrap();
            worlds[wi].ops.push(Op::Kill { w: wid });
            order.push(wi);
            bump("worker_restart");
        }
        if slots[si].workers[ws].is_none() {
            let wid = slots[si].next_wid;
            slots[si].next_wid += 1;
            let entropy = draw_entropy(&mut rng, cfg.entropy_mode);
            worlds[wi].ops.push(Op::Spawn { w: wid, entropy });
            order.push(wi);
            slots[si].workers[ws] = Some(wid);
            bump("entropy_reseed");
        }
        let wid = slots[si].workers[ws].unwrap();
        if cfg.clock_jump && rng.chance(1, 5) {
            // U(1 ns, 10 years), sometimes backwards
            let mag = match rng.below(4) {
                0 => rng.range(0, 1) as i64,
                1 => rng.range(1, 3600) as i64,
                2 => rng.range(3600, 86_400 * 30) as i64,
                _ => rng.range(86_400 * 30, 86_400 * 3650) as i64,
            };
            let ns = rng.below(1_000_000_000) as i64;
            if rng.chance(1, 5) {
                clock_s -= mag;
                bump("clock_backwards");
            } else {
                clock_s += mag;
                bump("clock_jump");
            }
            worlds[wi].ops.push(Op::Clock { s: clock_s, ns });
            order.push(wi);
        }
        if cfg.fs_wipe && rng.chance(1, 20) {
            worlds[wi].ops.push(Op::FsWipe);
            order.push(wi);
            bump("fs_wipe");
        }
        if cfg.fs_wipe && rng.chance(1, 12) {
            worlds[wi].ops.push(Op::FsTear { seed: rng.next_u64() });
            order.push(wi);
            bump("fs_tear");
        }
        if cfg.heap_fragment && rng.chance(1, 5) {
            let n = rng.range(1, 400);
            worlds[wi].ops.push(Op::Frag { w: wid, seed: rng.next_u64(), n });
            order.push(wi);
            bump("heap_fragment");
        }
        // history burst: k further expansions on this worker before the step's own expansion
        if cfg.history_burst && rng.chance(3, 20) {
            let k = 1 + rng.geometric(9, 10, 39);
            for _ in 0..k {
                let i = if !polluters.is_empty() && rng.chance(1, 2) {
                    *rng.pick(&polluters)
                } else {
                    rng.usize(inputs.len())
                };
                let fmt = if cfg.reformat && rng.chance(1, 4) { 1 + rng.below(u64::MAX - 1) } else { 0 };
                worlds[wi].ops.push(Op::Expand { w: wid, input: i, fmt });
                order.push(wi);
            }
            bump("history_burst");
        }
        let i = if !polluters.is_empty() && rng.chance(3, 10) {
            let p = *rng.pick(&polluters);
            match roles[p] {
                "polluter/err" => bump("err_predecessor"),
                "polluter/panic" => bump("panic_predecessor"),
                "polluter/same_ident" => bump("same_ident_predecessor"),
                _ => {},
            }
            p
        } else {
            rng.usize(n_targets)
        };
        let fmt = if cfg.reformat && rng.chance(1, 4) { 1 + rng.below(u64::MAX - 1) } else { 0 };
        if fmt != 0 {
            bump("reformat");
        }
        worlds[wi].ops.push(Op::Expand { w: wid, input: i, fmt });
        order.push(wi);
    }

    let names: Vec<String> = inputs.iter().map(|t| type_name(t)).collect();
    Plan { seed, cfg, scenario: Scenario { inputs, worlds }, order, roles, names, planned_kinds: kinds }
}

pub fn type_name(text: &str) -> String {
    text.parse::<proc_macro2::TokenStream>()
        .ok()
        .and_then(|ts| syn::parse2::<syn::DeriveInput>(ts).ok())
        .map(|d| d.ident.to_string())
        .unwrap_or_default()
}

#[derive(Clone, Debug)]
pub struct Event {
    pub step: usize,
    pub world: usize,
    pub op: usize,
    pub input: usize,
    pub keyfp: u64,
    pub out_hash: u64,
    pub hist_hash: u64,
}

pub struct RunResult {
    pub events: Vec<Event>,
    pub obs_first: BTreeMap<usize, Obs>,
    /// (earlier, later) observations that disagree, if any
    pub violation: Option<(Obs, Obs)>,
    pub stats: Vec<HostStats>,
    pub canaries: BTreeSet<String>,
    pub ops_executed: usize,
    /// (input text hash, keyfp) of expansions with a non-trivial outcome
    pub nontrivial: BTreeSet<(u64, u64)>,
    pub outcome_classes: BTreeMap<&'static str, u64>,
    pub hist_prefixes: BTreeSet<u64>,
    pub classes_by_event: BTreeMap<(usize, usize), &'static str>,
    /// `fs_tear` ops that found a file to cut short
    pub files_torn: u64,
}

pub fn outcome_class(out: &str) -> &'static str {
    if out.starts_with("PANIC:") {
        "panic"
    } else if out.starts_with("LEXERR:") {
        "lexerr"
    } else if out.contains("compile_error") {
        "diagnostic"
    } else {
        let n = out.matches("impl ").count();
        if n >= 2 {
            "ok_multi_item"
        } else {
            "ok_single_item"
        }
    }
}

pub fn is_nontrivial(out: &str) -> bool {
    !matches!(outcome_class(out), "ok_single_item" | "lexerr")
}

/// Execute a plan, stopping at the first disagreement (per-step invariant).
pub fn execute_plan(plan: &Plan) -> HResult<RunResult> {
    let sc = &plan.scenario;
    let mut procs: BTreeMap<usize, Proc> = BTreeMap::new();
    let sandbox = crate::scenario::Sandbox::new();
    let mut cursor: Vec<usize> = vec![0; sc.worlds.len()];
    let mut res = RunResult {
        events: vec![],
        obs_first: BTreeMap::new(),
        violation: None,
        stats: vec![],
        canaries: BTreeSet::new(),
        ops_executed: 0,
        nontrivial: BTreeSet::new(),
        outcome_classes: BTreeMap::new(),
        hist_prefixes: BTreeSet::new(),
        classes_by_event: BTreeMap::new(),
        files_torn: 0,
    };
    // first observation per input *text*
    let mut first_by_text: BTreeMap<&str, Obs> = BTreeMap::new();
    // per (world, worker): hash of the sequence of inputs served so far
    let mut hist: BTreeMap<(usize, u64), u64> = BTreeMap::new();

    for (step, &wi) in plan.order.iter().enumerate() {
        let world = &sc.worlds[wi];
        let oi = cursor[wi];
        cursor[wi] += 1;
        let op = &world.ops[oi];
        if !procs.contains_key(&wi) {
            procs.insert(wi, Proc::start(&world.env, Some(&sandbox.dir))?);
        }
        let p = procs.get_mut(&wi).unwrap();
        res.ops_executed += 1;
        match op {
            Op::Spawn { w, entropy } => {
                let (_fp, canary) = p.spawn_worker(*w, *entropy)?;
                res.canaries.insert(canary);
                hist.insert((wi, *w), 0);
            },
            Op::Expand { w, input, .. } => {
                let (fp, out) = apply(p, &sc.inputs, op)?.unwrap();
                let text = sc.inputs[*input].as_str();
                let h = hist.entry((wi, *w)).or_insert(0);
                let hist_before = *h;
                *h = crate::prng::mix64(*h ^ fnv64(text));
                res.hist_prefixes.insert(hist_before);
                let oh = fnv64(&out);
                res.events.push(Event {
                    step,
                    world: wi,
                    op: oi,
                    input: *input,
                    keyfp: fp,
                    out_hash: oh,
                    hist_hash: hist_before,
                });
                *res.outcome_classes.entry(outcome_class(&out)).or_insert(0) += 1;
                res.classes_by_event.insert((wi, oi), outcome_class(&out));
                if is_nontrivial(&out) {
                    res.nontrivial.insert((fnv64(text), fp));
                }
                let o = Obs { world: wi, op: oi, input: *input, keyfp: fp, outcome: out };
                match first_by_text.get(text) {
                    None => {
                        res.obs_first.insert(*input, o.clone());
                        first_by_text.insert(text, o);
                    },
                    Some(f) => {
                        if f.outcome != o.outcome {
                            res.violation = Some((f.clone(), o));
                            break;
                        }
                    },
                }
            },
            Op::FsWipe => sandbox.wipe(),
            Op::FsTear { seed } => {
                if sandbox.tear(*seed) {
                    res.files_torn += 1;
                }
            },
            other => {
                apply(p, &sc.inputs, other)?;
            },
        }
        if cursor[wi] == world.ops.len() {
            if let Some(mut p) = procs.remove(&wi) {
                res.stats.push(p.stats()?);
                p.quit();
            }
        }
    }
    for (_, mut p) in std::mem::take(&mut procs) {
        if let Ok(s) = p.stats() {
            res.stats.push(s);
        }
        p.quit();
    }
    Ok(res)
}

/// hash of the whole event log: what the determinism self-check compares
pub fn log_hash(events: &[Event]) -> u64 {
    let mut h = 0u64;
    for e in events {
        for v in [e.step as u64, e.world as u64, e.op as u64, e.input as u64, e.keyfp, e.out_hash, e.hist_hash] {
            h = crate::prng::mix64(h ^ v);
        }
    }
    h
}
