//! educe-sim: deterministic simulation of the environments in which educe's derive expansion runs.
//! See /verif/DESIGN.md. Exit codes: 0 held, 1 violation, 2 harness error.

mod batch;
mod corpus;
mod e3;
mod e4;
mod gen;
mod host;
mod json;
mod prng;
mod proc;
mod run;
mod scenario;
mod seams;
mod shrink;

use std::path::{Path, PathBuf};

use batch::Args;
use json::J;

const DEFAULT_SEED: u64 = 20_261_001;

fn verif_seed(a: &Args) -> u64 {
    if let Some(s) = a.map.get("seed") {
        if let Ok(v) = s.parse() {
            return v;
        }
    }
    std::env::var("VERIF_SEED").ok().and_then(|s| s.trim().parse().ok()).unwrap_or(DEFAULT_SEED)
}

fn write_evidence(path: &Path, tier: &str, seed: u64, coverage: J, wall: f64, violations: usize, engines: J) -> std::io::Result<()> {
    if let Some(d) = path.parent() {
        std::fs::create_dir_all(d)?;
    }
    let j = J::obj()
        .set("property_id", J::s("C16"))
        .set("tier", J::s(tier))
        .set("seed", J::Int(seed as i128))
        .set("level", J::s("exploration"))
        .set("coverage", coverage.set("engines", engines))
        .set(
            "assumptions",
            J::Arr(
                [
                    "E1/E2 run educe through the proc_macro2 fallback token server (the real proc_macro bridge is exercised by E3 only)",
                    "std reaches getrandom/clock_gettime/getpid through the libc symbols the simulator overrides (checked on every run by the canary and by entropy_draws_by_workers > 0)",
                    "expansions are atomic steps: educe contains no synchronisation point at which a finer interleaving could be decided",
                    "a clean batch is evidence over the sampled worlds and inputs, not a proof",
                ]
                .iter()
                .map(|s| J::s(*s))
                .collect(),
            ),
        )
        .set("wall_s", J::Num(wall))
        .set("violations", J::Int(violations as i128));
    std::fs::write(path, j.to_string_pretty())
}

fn check_main(a: &Args) -> i32 {
    let mut a2 = Args { map: a.map.clone() };
    let seed = verif_seed(a);
    a2.map.insert("seed".into(), seed.to_string());
    let tier = a.get("tier", "quick");
    let verif = PathBuf::from(a.get("verif", "/verif"));
    let out_dir = PathBuf::from(a.get("out-dir", verif.join("build/out").to_str().unwrap()));
    let replay_dir = a.get("replay-dir", verif.join("replays").to_str().unwrap());
    a2.map.insert("replay-dir".into(), replay_dir);
    let evidence = PathBuf::from(a.get("evidence", verif.join("evidence/C16.json").to_str().unwrap()));
    let shards = a.u64("shards", 16);
    let runs = a.u64("runs", if tier == "thorough" { 30000 } else { 1500 });
    println!("VERIF_SEED={seed} tier={tier} runs={runs} shards={shards}");

    let t0 = seams::real_now_s();
    let b = match batch::batch(&a2, &tier, runs, shards, &out_dir) {
        Ok(b) => b,
        Err(e) => {
            eprintln!("HARNESS-ERROR: {e}");
            return 2;
        },
    };
    let mut engines = vec![J::obj()
        .set("name", J::s("E1/E2 simulated processes"))
        .set("real", J::s("all of educe (derive_input_handler and below), syn, quote; real OS threads and child processes"))
        .set("stub", J::s("token server = proc_macro2 fallback; entropy, clock, pid = simulator"))
        .set("expansions", b.coverage.get("evaluations").cloned().unwrap_or(J::Null))];

    // E3: the shipped artefact in real rustc
    let mut e3_violations: Vec<J> = vec![];
    let mut e3_errors: Vec<String> = vec![];
    let mut coverage = b.coverage.clone();
    if a.get("e3", "1") != "0" {
        match e3::run(&a2, &tier, seed) {
            Ok(r) => {
                engines.push(r.engine_json.clone());
                coverage.put("e3", r.coverage.clone());
                e3_violations = r.violations;
            },
            Err(e) => e3_errors.push(e),
        }
    }

    // E4: Miri (thorough only; corroborating, independent of symbol interposition)
    let mut e4_violations: Vec<J> = vec![];
    if tier == "thorough" && a.get("e4", "1") != "0" {
        match e4::run(&a2, seed) {
            Ok(r) => {
                engines.push(r.engine_json.clone());
                coverage.put("e4", r.coverage.clone());
                e4_violations = r.violations;
            },
            Err(e) => e3_errors.push(format!("E4: {e}")),
        }
    }

    let known = batch::load_known(&verif.join("known_findings.json"));
    let mut unknown = 0usize;
    let mut unminimised = 0usize;
    let mut known_hits: Vec<String> = vec![];
    for v in b.violations.iter().chain(e3_violations.iter()).chain(e4_violations.iter()) {
        let sig = v.get("signature").cloned().unwrap_or(J::Null);
        match batch::matches_known(&known, &sig) {
            Some(what) => {
                if !known_hits.contains(&what) {
                    known_hits.push(what);
                }
            },
            None => {
                unknown += 1;
                match v.get("replay").and_then(|x| x.str()) {
                    Some(p) => {
                        println!("VIOLATION property=C16 replay={p}");
                        println!("  signature: {}", sig.to_string_compact());
                    },
                    None => unminimised += 1,
                }
            },
        }
    }
    if unminimised > 0 {
        println!("({unminimised} further violating runs were not minimised: over the per-shard replay cap)");
    }
    for what in &known_hits {
        println!("KNOWN-FINDING: property=C16 {what}");
    }
    let wall = seams::real_now_s() - t0;
    coverage.put("violations_known", J::i(known_hits.len() as u64));
    coverage.put("harness_errors", J::Arr(b.harness_errors.iter().cloned().chain(e3_errors.iter().map(|e| J::s(e.clone()))).collect()));
    if let Err(e) = write_evidence(&evidence, &tier, seed, coverage, wall, unknown, J::Arr(engines)) {
        eprintln!("HARNESS-ERROR: cannot write evidence: {e}");
        return 2;
    }
    println!(
        "expansions={} distinct_nontrivial={} canary_orders={} wall={:.1}s",
        b.coverage.get("evaluations").map(|x| x.to_string_compact()).unwrap_or_default(),
        b.coverage.get("distinct_nontrivial").map(|x| x.to_string_compact()).unwrap_or_default(),
        b.canaries,
        wall
    );
    if unknown > 0 {
        return 1;
    }
    if !b.harness_errors.is_empty() || !e3_errors.is_empty() {
        for e in &b.harness_errors {
            eprintln!("HARNESS-ERROR: {}", e.to_string_compact());
        }
        for e in &e3_errors {
            eprintln!("HARNESS-ERROR: E3: {e}");
        }
        return 2;
    }
    if b.canaries < 2 {
        eprintln!("HARNESS-ERROR: the entropy seam is dead (canary hash map showed {} order(s))", b.canaries);
        return 2;
    }
    println!("OK property=C16 held on everything explored");
    0
}

/// Determinism of the simulator itself: every seed twice, at several shard counts; event-log
/// hashes must be identical.
/// The seams must be live: std's public API, called on a worker thread, has to see the simulated
/// values and bump the probes. Dead seam => harness error, never a verdict.
fn seamtest() -> Result<Vec<String>, String> {
    let mut lines = vec![];
    let mut seen: Vec<String> = vec![];
    for (k, (seed, ncpu, slide)) in [(0u64, 0u64, 0u64), (7, 3, (192u64 << 20) + 4096), (8, 12, (320u64 << 20) + 8192), (7, 3, (192u64 << 20) + 4096)].iter().enumerate() {
        let env = vec![
            ("VERIF_ENV_SEED".to_string(), seed.to_string()),
            ("VERIF_NCPU".to_string(), ncpu.to_string()),
            ("VERIF_SLIDE_MMAP".to_string(), slide.to_string()),
            ("VERIF_PROBE_SET".to_string(), format!("v{k}")),
            ("VERIF_CLOCK_STEP_NS".to_string(), (k as u64 * 1_000_000).to_string()),
            ("VERIF_ISATTY".to_string(), (1 + k as u64 % 2).to_string()),
        ];
        let mut p = proc::Proc::start(&env, None).map_err(|e| e.to_string())?;
        p.set_clock(1_000_000 + k as i64, 5).map_err(|e| e.to_string())?;
        p.set_pid(100 + k as i64).map_err(|e| e.to_string())?;
        p.spawn_worker(0, 42).map_err(|e| e.to_string())?;
        let l = p.probe(0).map_err(|e| e.to_string())?;
        let st = p.stats().map_err(|e| e.to_string())?;
        p.quit();
        lines.push(format!("world{k}: {l}  probes: env={} cwd={} fs={} ncpu={} clock={} pid={} getrandom={}", st.env_reads_worker, st.cwd_reads_worker, st.fs_calls_worker, st.ncpu_reads_worker, st.clock_reads_worker, st.pid_reads_worker, st.getrandom_worker));
        if st.env_reads_worker < 1 || st.cwd_reads_worker < 1 || st.fs_calls_worker < 1 || st.clock_reads_worker < 1 || st.pid_reads_worker < 1 || st.getrandom_worker < 1 {
            return Err(format!("a seam is dead: {}", lines.last().unwrap()));
        }
        if !l.contains(&format!("now={}", 1_000_000 + k as i64)) || !l.contains(&format!("pid={}", 100 + k)) {
            return Err(format!("simulated clock/pid not seen by the worker: {l}"));
        }
        if !l.contains(&format!("elapsed={} ", k as u64 * 1_000_000)) || !l.contains(&format!("tty={} ", k % 2 == 1)) {
            return Err(format!("simulated elapsed time / isatty not seen by the worker: {l}"));
        }
        if *ncpu > 0 && !l.contains(&format!("ncpu={ncpu} ")) {
            return Err(format!("simulated cpu count not seen by the worker: {l}"));
        }
        seen.push(l);
    }
    // same world twice => identical observations, including the heap address
    let strip = |s: &str| s.replace("elapsed=1000000", "elapsed").replace("elapsed=3000000", "elapsed").replace("v1", "v").replace("v3", "v").replace("now=1000001", "now").replace("now=1000003", "now").replace("pid=101", "pid").replace("pid=103", "pid");
    if strip(&seen[1]) != strip(&seen[3]) {
        return Err(format!("identical worlds observed different things:\n  {}\n  {}", seen[1], seen[3]));
    }
    let heap = |s: &str| s.split("heap=").nth(1).unwrap_or("").to_string();
    if heap(&seen[0]) == heap(&seen[1]) && heap(&seen[1]) == heap(&seen[2]) {
        return Err("address slide has no effect on heap addresses of workers".into());
    }
    Ok(lines)
}

fn selfcheck_main(a: &Args) -> i32 {
    match seamtest() {
        Ok(lines) => {
            for l in lines {
                println!("{l}");
            }
            println!("seam test OK");
        },
        Err(e) => {
            eprintln!("HARNESS-ERROR: {e}");
            return 2;
        },
    }
    let seeds = a.u64("seeds", 6);
    let runs = a.u64("runs", 48);
    let base = verif_seed(a);
    let verif = PathBuf::from(a.get("verif", "/verif"));
    let mut bad = 0;
    for s in 0..seeds {
        let seed = base.wrapping_add(s * 7919);
        let mut reference: Option<Vec<(u64, String)>> = None;
        for (round, shards) in [1u64, 4, 16, 16].iter().enumerate() {
            let mut a2 = Args { map: a.map.clone() };
            a2.map.insert("seed".into(), seed.to_string());
            a2.map.insert("replay-dir".into(), verif.join("build/selfcheck/replays").display().to_string());
            let out = verif.join(format!("build/selfcheck/s{s}-r{round}"));
            match batch::batch(&a2, &a.get("tier", "quick"), runs, *shards, &out) {
                Ok(b) => match &reference {
                    None => reference = Some(b.run_hashes),
                    Some(r) => {
                        if *r != b.run_hashes {
                            bad += 1;
                            let n = r.iter().zip(b.run_hashes.iter()).filter(|(x, y)| x != y).count();
                            println!("NONDETERMINISM seed={seed} shards={shards}: {n} of {} run logs differ", r.len());
                        }
                    },
                },
                Err(e) => {
                    eprintln!("HARNESS-ERROR: {e}");
                    return 2;
                },
            }
        }
        println!("seed {seed}: {} runs x 4 executions (1, 4, 16, 16 shards) compared", runs);
    }
    if bad == 0 {
        println!("selfcheck OK: event logs identical across repetitions and shard counts");
        0
    } else {
        2
    }
}

fn main() {
    let argv: Vec<String> = std::env::args().collect();
    let cmd = argv.get(1).map(|s| s.as_str()).unwrap_or("");
    let a = Args::parse(&argv[2.min(argv.len())..]);
    let code = match cmd {
        "host" => host::host_main(),
        "shard" => batch::shard_main(&a),
        "check" => check_main(&a),
        "selfcheck" => selfcheck_main(&a),
        "replay" => match a.map.get("_0") {
            Some(p) => batch::replay(Path::new(p)),
            None => {
                eprintln!("usage: educe-sim replay <file>");
                2
            },
        },
        "merge-evidence" => {
            // fold the per-feature-configuration evidence files into the main one
            let main_path = a.get("_0", "");
            let Ok(t) = std::fs::read_to_string(&main_path) else {
                eprintln!("cannot read {main_path}");
                std::process::exit(2);
            };
            let Ok(mut j) = J::parse(&t) else { std::process::exit(2) };
            let mut cfgs = vec![];
            let mut extra_viol = 0i128;
            let mut k = 1;
            while let Some(spec) = a.map.get(&format!("_{k}")) {
                k += 1;
                let Some((name, path)) = spec.split_once('=') else { continue };
                if path == "unbuildable" {
                    cfgs.push(J::obj().set("name", J::s(name)).set("status", J::s("does not build with the hook enabled; skipped (C18's business)")));
                    continue;
                }
                match std::fs::read_to_string(path).ok().and_then(|t| J::parse(&t).ok()) {
                    Some(e) => {
                        let c = e.get("coverage").cloned().unwrap_or(J::Null);
                        extra_viol += e.get("violations").and_then(|x| x.int()).unwrap_or(0);
                        cfgs.push(
                            J::obj()
                                .set("name", J::s(name))
                                .set("evaluations", c.get("evaluations").cloned().unwrap_or(J::Null))
                                .set("distinct_nontrivial", c.get("distinct_nontrivial").cloned().unwrap_or(J::Null))
                                .set("simulated_runs", c.get("simulated_runs").cloned().unwrap_or(J::Null))
                                .set("outcome_classes", c.get("outcome_classes").cloned().unwrap_or(J::Null))
                                .set("violations", e.get("violations").cloned().unwrap_or(J::Null))
                                .set("wall_s", e.get("wall_s").cloned().unwrap_or(J::Null)),
                        );
                    },
                    None => cfgs.push(J::obj().set("name", J::s(name)).set("status", J::s("no evidence written"))),
                }
            }
            let v0 = j.get("violations").and_then(|x| x.int()).unwrap_or(0);
            if let Some(J::Obj(_)) = j.get("coverage") {
                let mut c = j.get("coverage").cloned().unwrap();
                c.put("feature_configurations", J::Arr(cfgs));
                j.put("coverage", c);
            }
            j.put("violations", J::Int(v0 + extra_viol));
            if std::fs::write(&main_path, j.to_string_pretty()).is_err() {
                std::process::exit(2);
            }
            0
        },
        "expand-one" => {
            // plain in-process expansion of one input file (no simulation): prints the outcome
            std::panic::set_hook(Box::new(|_| {}));
            let t = std::fs::read_to_string(a.get("_0", "")).unwrap_or_default();
            print!("{}", host::expand_once(&t));
            0
        },
        "compare-firsts" => {
            // cross-build comparison: the same inputs expanded by two builds of educe (same features,
            // different build profile) must give the same first outcomes
            let (da, db) = (a.get("_0", ""), a.get("_1", ""));
            let load = |d: &str| -> std::collections::BTreeMap<String, String> {
                let mut m = std::collections::BTreeMap::new();
                if let Ok(rd) = std::fs::read_dir(d) {
                    for e in rd.flatten() {
                        if let Ok(t) = std::fs::read_to_string(e.path()) {
                            for l in t.lines() {
                                if let Ok(j) = J::parse(l) {
                                    if let (Some(i), Some(o)) = (j.get("in").and_then(|x| x.str()), j.get("out").and_then(|x| x.str())) {
                                        m.entry(i.to_string()).or_insert(o.to_string());
                                    }
                                }
                            }
                        }
                    }
                }
                m
            };
            let (ma, mb) = (load(&da), load(&db));
            let mut diffs: Vec<&String> = ma.iter().filter(|(k, v)| mb.get(*k).map(|w| w != *v).unwrap_or(false)).map(|(k, _)| k).collect();
            diffs.sort_by_key(|t| t.len());
            let label = a.get("label", "dev");
            let what = if label == "altpath" { "release build vs release build from a copied source location" } else { "release build vs dev build" };
            println!("{what}: compared {} inputs present in both builds: {} differ", ma.keys().filter(|k| mb.contains_key(*k)).count(), diffs.len());
            for (n, t) in diffs.iter().take(2).enumerate() {
                let dir = PathBuf::from(a.get("replay-dir", "/verif/replays"));
                let _ = std::fs::create_dir_all(&dir);
                let path = dir.join(format!("C16-{}-{}-{n}.json", if label == "altpath" { "LOCATION" } else { "PROFILE" }, verif_seed(&a)));
                let j = J::obj()
                    .set("property", J::s("C16"))
                    .set("engine", J::s("PROFILE: the same input expanded by a release-profile and a dev-profile build of educe (same features)"))
                    .set("signature", J::obj().set("kind", J::s(if label == "altpath" { "build_location" } else { "build_profile" })))
                    .set("input", J::s((*t).clone()))
                    .set("outcome_hash_release", J::s(ma[*t].clone()))
                    .set("outcome_hash_dev", J::s(mb[*t].clone()));
                let _ = std::fs::write(&path, j.to_string_pretty());
                println!("VIOLATION property=C16 replay={}", path.display());
            }
            if diffs.is_empty() { 0 } else { 1 }
        },
        "planscan" => {
            // how many runs of a batch contain an input with the given substring (workload reach)
            let c = corpus::harvest(Path::new(&a.get("repo", "/repo")));
            let needle = a.get("grep", "");
            let thorough = a.get("tier", "quick") == "thorough";
            let (mut runs_hit, mut inputs_hit, mut shown) = (0u64, 0u64, 0);
            for r in 0..a.u64("runs", 1000) {
                let pl = run::plan(prng::run_seed(verif_seed(&a), r), &c.inputs, thorough);
                let hits: Vec<&String> = pl.scenario.inputs.iter().filter(|t| t.contains(&needle)).collect();
                if !hits.is_empty() {
                    runs_hit += 1;
                    inputs_hit += hits.len() as u64;
                    if shown < 3 {
                        shown += 1;
                        println!("run {r}: {}", hits[0].replace('\n', " ").chars().take(200).collect::<String>());
                    }
                }
            }
            println!("runs with a match: {runs_hit}, matching inputs: {inputs_hit}");
            0
        },
        "plan" => {
            // print the (PRNG-free) scenario that run R of a batch with seed S executes
            let c = corpus::harvest(Path::new(&a.get("repo", "/repo")));
            let seed = prng::run_seed(verif_seed(&a), a.u64("run", 0));
            let pl = run::plan(seed, &c.inputs, a.get("tier", "quick") == "thorough");
            println!("{}", pl.scenario.to_json().set("cfg", J::s(format!("{:?}", pl.cfg))).to_string_pretty());
            0
        },
        "exec" => {
            // execute a scenario file (worlds sequentially) and print one line per expansion
            let t = std::fs::read_to_string(a.get("_0", "")).unwrap_or_default();
            match J::parse(&t).and_then(|j| scenario::Scenario::from_json(j.get("scenario").unwrap_or(&j))) {
                Ok(sc) => match scenario::execute(&sc) {
                    Ok(ex) => {
                        for o in &ex.obs {
                            println!("{} {} {} {:016x} {:016x}", o.world, o.op, o.input, o.keyfp, scenario::fnv64(&o.outcome));
                        }
                        0
                    },
                    Err(e) => {
                        eprintln!("HARNESS-ERROR: {e}");
                        2
                    },
                },
                Err(e) => {
                    eprintln!("bad scenario: {e}");
                    2
                },
            }
        },
        "corpus" => {
            let c = corpus::harvest(Path::new(&a.get("repo", "/repo")));
            println!("sites={} distinct={} by_origin={:?}", c.sites, c.inputs.len(), c.by_origin);
            println!("template idents (type-like): {:?}", c.template_idents.0);
            println!("template idents (value-like): {:?}", c.template_idents.1);
            println!("parameter-like words: {:?}", corpus::param_words(Path::new(&a.get("repo", "/repo"))));
            println!("rarely exemplified parameter-like words (probe runs): {:?}", gen::rare_words());
            if a.map.contains_key("dump") {
                for i in &c.inputs {
                    println!("// {} [{}]\n{}\n", i.origin, i.name, i.text);
                }
            }
            0
        },
        "gen" => {
            std::panic::set_hook(Box::new(|_| {}));
            let _ = corpus::harvest(Path::new(&a.get("repo", "/repo")));
            let mut rng = prng::Rng::new(a.u64("seed", 1));
            for k in 0..a.u64("probes", 0) {
                let t = gen::param_probe(&mut rng, &format!("P{k}"));
                println!("{t}");
                if a.map.contains_key("expand") {
                    println!("// => {}\n", host::expand_once(&t));
                }
            }
            for k in 0..a.u64("n", 5) {
                let opts = gen::GenOpts { error_pct: a.u64("error-pct", 15), into_heavy: rng.chance(3, 10) };
                let t = gen::generate(&mut rng, &format!("G{k}"), &opts);
                println!("{t}");
                if a.map.contains_key("expand") {
                    println!("// => {}\n", host::expand_once(&t));
                }
            }
            0
        },
        "e4" => match e4::run(&a, verif_seed(&a)) {
            Ok(r) => {
                println!("{}", r.coverage.to_string_pretty());
                for v in &r.violations {
                    println!("VIOLATION property=C16 replay={}", v.get("replay").and_then(|x| x.str()).unwrap_or(""));
                }
                if r.violations.is_empty() { 0 } else { 1 }
            },
            Err(e) => {
                eprintln!("HARNESS-ERROR: {e}");
                2
            },
        },
        "e3" => match e3::run(&a, &a.get("tier", "quick"), verif_seed(&a)) {
            Ok(r) => {
                println!("{}", r.coverage.to_string_pretty());
                for v in &r.violations {
                    println!("VIOLATION property=C16 replay={}", v.get("replay").and_then(|x| x.str()).unwrap_or(""));
                }
                if r.violations.is_empty() { 0 } else { 1 }
            },
            Err(e) => {
                eprintln!("HARNESS-ERROR: {e}");
                2
            },
        },
        _ => {
            eprintln!("usage: educe-sim host|shard|check|selfcheck|replay|corpus|gen|e3 ...");
            2
        },
    };
    std::process::exit(code);
}
