//! E4: Miri. The driver crate /verif/miri expands a small set of inputs on the main thread, on a
//! second thread and on the main thread again, inside Miri's abstract machine; `-Zmiri-seed=N`
//! decides the entropy Miri hands to `RandomState` *and* the address of every allocation. The
//! harness runs the driver under several seeds and compares `(thread, input) -> outcome hash`.
//! Corroborating engine (thorough tier only): independent of symbol interposition.

use std::collections::{BTreeMap, BTreeSet};
use std::path::PathBuf;
use std::process::{Command, Stdio};

use crate::batch::Args;
use crate::corpus;
use crate::gen::{self, GenOpts};
use crate::json::J;
use crate::prng::{mix64, Rng};
use crate::seams::real_now_s;

pub const SEP: &str = "\n//----8<----\n";

pub fn write_inputs(a: &Args, seed: u64) -> Result<Vec<String>, String> {
    let verif = PathBuf::from(a.get("verif", "/verif"));
    let repo = PathBuf::from(a.get("repo", "/repo"));
    let n = a.u64("e4-inputs", 4) as usize;
    let corp = corpus::harvest(&repo);
    let mut rng = Rng::new(mix64(seed ^ 0xE4E4));
    let mut inputs: Vec<String> = vec![];
    let into: Vec<&corpus::Input> = corp.inputs.iter().filter(|i| i.text.matches("Into").count() >= 2).collect();
    for _ in 0..(n / 4).max(1) {
        if !into.is_empty() {
            inputs.push(rng.pick(&into).text.clone());
        }
    }
    if !corp.inputs.is_empty() {
        for _ in 0..(n / 4).max(1) {
            inputs.push(rng.pick(&corp.inputs).text.clone());
        }
    }
    let mut k = 0;
    while inputs.len() < n {
        let opts = GenOpts { error_pct: 25, into_heavy: k % 2 == 0 };
        inputs.push(gen::generate(&mut rng, &format!("M{k}"), &opts));
        k += 1;
    }
    let path = verif.join("build/miri_inputs.txt");
    std::fs::create_dir_all(path.parent().unwrap()).map_err(|e| e.to_string())?;
    std::fs::write(&path, inputs.join(SEP)).map_err(|e| e.to_string())?;
    Ok(inputs)
}

pub struct E4Result {
    pub engine_json: J,
    pub coverage: J,
    pub violations: Vec<J>,
}

fn run_seed(verif: &PathBuf, miri_seed: u64, full: bool) -> std::io::Result<std::process::Child> {
    let mut cmd = Command::new("cargo");
    cmd.arg("+nightly")
        .arg("miri")
        .arg("run")
        .arg("--offline")
        .arg("--quiet")
        .arg("--manifest-path")
        .arg(verif.join("miri/Cargo.toml"))
        .arg("--target-dir")
        .arg(verif.join("build/target-miri"));
    if full {
        cmd.arg("--").arg("--full");
    }
    cmd.env("RUSTFLAGS", "--cfg magiclen_educe_verif -Awarnings")
        .env("MIRIFLAGS", format!("-Zmiri-seed={miri_seed} -Zmiri-disable-isolation"))
        .env("CARGO_NET_OFFLINE", "true")
        .stdin(Stdio::null())
        .stdout(Stdio::piped())
        .stderr(Stdio::piped());
    cmd.spawn()
}

pub fn run(a: &Args, seed: u64) -> Result<E4Result, String> {
    let verif = PathBuf::from(a.get("verif", "/verif"));
    let t0 = real_now_s();
    let inputs = write_inputs(a, seed)?;
    let n_seeds = a.u64("e4-seeds", 12);
    let by_hash: BTreeMap<String, &String> =
        inputs.iter().map(|t| (format!("{:016x}", crate::scenario::fnv64(t)), t)).collect();

    // first seed alone: it builds the driver
    let mut outputs: Vec<(u64, String)> = vec![];
    let first = run_seed(&verif, 0, false).and_then(|c| c.wait_with_output()).map_err(|e| e.to_string())?;
    if !first.status.success() {
        return Err(format!(
            "miri run failed: {}",
            String::from_utf8_lossy(&first.stderr).chars().rev().take(1500).collect::<String>().chars().rev().collect::<String>()
        ));
    }
    outputs.push((0, String::from_utf8_lossy(&first.stdout).into_owned()));
    let mut children = vec![];
    for s in 1..n_seeds {
        children.push((s, run_seed(&verif, s, false).map_err(|e| e.to_string())?));
    }
    for (s, c) in children {
        let o = c.wait_with_output().map_err(|e| e.to_string())?;
        if !o.status.success() {
            return Err(format!("miri seed {s} failed: {}", String::from_utf8_lossy(&o.stderr).chars().take(1500).collect::<String>()));
        }
        outputs.push((s, String::from_utf8_lossy(&o.stdout).into_owned()));
    }

    // (input hash) -> first (seed, thread, outcome hash)
    let mut first_seen: BTreeMap<String, (u64, String, String)> = BTreeMap::new();
    let mut canaries: BTreeSet<String> = BTreeSet::new();
    let mut evals = 0u64;
    let mut flagged: BTreeSet<String> = BTreeSet::new();
    let mut violations = vec![];
    for (s, out) in &outputs {
        for l in out.lines() {
            let p: Vec<&str> = l.split(' ').collect();
            if p.len() == 3 && p[0] == "CANARY" {
                canaries.insert(p[2].to_string());
            }
            if p.len() == 4 && p[0] == "OUT" {
                evals += 1;
                let (thread, ih, oh) = (p[1].to_string(), p[2].to_string(), p[3].to_string());
                match first_seen.get(&ih) {
                    None => {
                        first_seen.insert(ih, (*s, thread, oh));
                    },
                    Some((s0, t0, oh0)) => {
                        if *oh0 != oh && flagged.insert(ih.clone()) {
                            let text = by_hash.get(&ih).map(|t| (*t).clone()).unwrap_or_default();
                            let j = J::obj()
                                .set("property", J::s("C16"))
                                .set("engine", J::s("E4 Miri"))
                                .set("input", J::s(text.clone()))
                                .set("first", J::obj().set("miri_seed", J::i(*s0)).set("thread", J::s(t0.clone())).set("outcome_hash", J::s(oh0.clone())))
                                .set("second", J::obj().set("miri_seed", J::i(*s)).set("thread", J::s(thread.clone())).set("outcome_hash", J::s(oh.clone())))
                                .set("how_to_replay", J::s("MIRIFLAGS='-Zmiri-seed=<n> -Zmiri-disable-isolation' RUSTFLAGS='--cfg magiclen_educe_verif' cargo +nightly miri run --offline --manifest-path /verif/miri/Cargo.toml -- --full   (with this input in /verif/build/miri_inputs.txt)"));
                            let dir = PathBuf::from(a.get("replay-dir", verif.join("replays").to_str().unwrap()));
                            let _ = std::fs::create_dir_all(&dir);
                            let path = dir.join(format!("C16-E4-{seed}-{ih}.json"));
                            let _ = std::fs::write(&path, j.to_string_pretty());
                            violations.push(
                                J::obj()
                                    .set("engine", J::s("E4"))
                                    .set("replay", J::s(path.display().to_string()))
                                    .set("signature", J::obj().set("kind", J::s("miri_outcome_hash")))
                                    .set("input", J::s(text)),
                            );
                        }
                    },
                }
            }
        }
    }
    let wall = real_now_s() - t0;
    let coverage = J::obj()
        .set("miri_seeds", J::i(n_seeds))
        .set("inputs", J::i(inputs.len() as u64))
        .set("expansions", J::i(evals))
        .set("threads_per_seed", J::s("main thread, then a spawned thread"))
        .set("canary_orders_seen", J::i(canaries.len() as u64))
        .set("wall_s", J::Num(wall));
    let engine_json = J::obj()
        .set("name", J::s("E4 Miri"))
        .set("real", J::s("all of educe, syn, quote, std's HashMap/RandomState, interpreted by Miri"))
        .set("stub", J::s("Miri's abstract machine: entropy and allocation addresses from -Zmiri-seed; proc_macro2 fallback token server"))
        .set("expansions", J::i(evals));
    if canaries.len() < 2 {
        return Err("Miri seeds did not change the canary hash map order: the entropy control is dead".into());
    }
    Ok(E4Result { engine_json, coverage, violations })
}

/// Replay of an E4 file: the recorded input alone, under the two recorded Miri seeds, full outcome
/// text compared. Exit 1 iff they still differ.
pub fn replay(j: &J, path: &std::path::Path) -> i32 {
    let verif = PathBuf::from("/verif");
    let input = j.get("input").and_then(|x| x.str()).unwrap_or("").to_string();
    let seed_of = |k: &str| j.get(k).and_then(|x| x.get("miri_seed")).and_then(|x| x.u64()).unwrap_or(0);
    let (s1, s2) = (seed_of("first"), seed_of("second"));
    if input.is_empty() {
        eprintln!("replay file has no input");
        return 2;
    }
    if std::fs::write(verif.join("build/miri_inputs.txt"), &input).is_err() {
        return 2;
    }
    let run = |s: u64| -> Option<Vec<String>> {
        let o = run_seed(&verif, s, true).ok()?.wait_with_output().ok()?;
        if !o.status.success() {
            eprintln!("miri failed: {}", String::from_utf8_lossy(&o.stderr).chars().take(800).collect::<String>());
            return None;
        }
        Some(String::from_utf8_lossy(&o.stdout).lines().filter(|l| l.starts_with("OUT ") || l.starts_with("TEXT ")).map(|l| l.to_string()).collect())
    };
    let (Some(a), Some(b)) = (run(s1), run(s2)) else { return 2 };
    // compare outcome hashes irrespective of thread tag
    let hashes = |v: &Vec<String>| -> BTreeSet<String> { v.iter().filter(|l| l.starts_with("OUT ")).filter_map(|l| l.split(' ').nth(3).map(|x| x.to_string())).collect() };
    let (ha, hb) = (hashes(&a), hashes(&b));
    if ha.len() > 1 || hb.len() > 1 || ha != hb {
        println!("replay (E4): outcomes differ between Miri seeds {s1} and {s2} (or between threads of one seed)");
        for l in a.iter().chain(b.iter()).filter(|l| l.starts_with("TEXT ")) {
            println!("{}", l.chars().take(600).collect::<String>());
        }
        println!("VIOLATION property=C16 replay={}", path.display());
        1
    } else {
        println!("replay (E4): outcomes agree (no violation)");
        0
    }
}
