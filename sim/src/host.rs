//! `educe-sim host`: one simulated *process*. A real child process that serves a line protocol on
//! stdin/stdout. It owns worker threads (real OS threads, parked on a channel and released one
//! command at a time — the host main loop never lets two of them run at once) and runs the real
//! educe entry point on them. Entropy, clock and pid come from `seams`.
//!
//! Protocol (one command per line, payloads length-prefixed):
//!   I <id> <len>\n<bytes>\n      register input text            -> ok
//!   S <w> <entropy>              spawn worker w                 -> ok <keyfp> <canary>
//!   K <w>                        worker exits (thread joined)   -> ok
//!   X <w> <id>                   expand input id on worker w    -> R <keyfp> <len>\n<bytes>\n
//!   C <sec> <nsec>               set simulated clock            -> ok
//!   P <pid>                      set simulated pid              -> ok
//!   F <w> <seed> <n>             heap pre-fragmentation on w    -> ok <live blocks>
//!   T                            seam probes                    -> stats a b c d
//!   Q                            exit

use std::collections::BTreeMap;
use std::collections::HashMap;
use std::hash::{BuildHasher, RandomState};
use std::io::{BufRead, BufReader, Read, Write};
use std::sync::atomic::Ordering;
use std::sync::{Arc, Condvar, Mutex};
use std::thread::JoinHandle;

use crate::prng::Rng;
use crate::seams;

enum Cmd {
    Expand(Arc<String>, u64),
    Probe,
    Frag(u64, u64),
    Quit,
}

/// Hand-over point between the host main loop and one worker. Deliberately NOT a channel: std's
/// mpsc allocates and frees queue blocks from whichever thread gets there first, and memory that one
/// thread allocates and the other frees moves between the two threads' malloc caches depending on
/// timing — which would make heap addresses inside the worker (a nondeterminism source the
/// simulator is supposed to own) depend on the OS scheduler. A mutex/condvar pair allocates
/// nothing after construction, and the worker writes its reply to stdout itself, so no block of
/// memory allocated by a worker is ever freed by another thread (and vice versa).
struct Slot {
    cmd: Mutex<Option<Cmd>>,
    cmd_cv: Condvar,
    done: Mutex<bool>,
    done_cv: Condvar,
}

impl Slot {
    fn new() -> Slot {
        Slot { cmd: Mutex::new(None), cmd_cv: Condvar::new(), done: Mutex::new(false), done_cv: Condvar::new() }
    }

    /// main: hand a command to the worker and wait until it has been served
    fn call(&self, c: Cmd) {
        *self.done.lock().unwrap() = false;
        *self.cmd.lock().unwrap() = Some(c);
        self.cmd_cv.notify_one();
        self.wait_done();
    }

    fn wait_done(&self) {
        let mut d = self.done.lock().unwrap();
        while !*d {
            d = self.done_cv.wait(d).unwrap();
        }
    }

    /// worker: block until a command arrives
    fn take(&self) -> Cmd {
        let mut c = self.cmd.lock().unwrap();
        loop {
            if let Some(cmd) = c.take() {
                return cmd;
            }
            c = self.cmd_cv.wait(c).unwrap();
        }
    }

    fn finish(&self) {
        *self.done.lock().unwrap() = true;
        self.done_cv.notify_one();
    }
}

struct Worker {
    slot: Arc<Slot>,
    handle: JoinHandle<()>,
}

fn keyfp() -> u64 {
    RandomState::new().hash_one(0u64)
}

/// a harness-owned hash map: if its order never changes between entropy values the seam is dead
fn canary() -> String {
    let mut m: HashMap<u32, ()> = HashMap::new();
    for k in 0..4u32 {
        m.insert(k, ());
    }
    m.keys().map(|k| k.to_string()).collect::<Vec<_>>().join("")
}

/// Start positions of every input token (open and close delimiters included), in DFS order.
fn token_starts(ts: proc_macro2::TokenStream, out: &mut Vec<(usize, usize)>) {
    for tt in ts {
        match tt {
            proc_macro2::TokenTree::Group(g) => {
                let o = g.span_open().start();
                out.push((o.line, o.column));
                token_starts(g.stream(), out);
                let c = g.span_close().start();
                out.push((c.line, c.column));
            },
            other => {
                let p = other.span().start();
                out.push((p.line, p.column));
            },
        }
    }
}

/// Which input token does each returned token point at? `output index @ input index`, for the
/// tokens whose span points into the input (generated tokens sit at the call site). Expressed in
/// token indices, not line:column, so the fingerprint does not change when the same tokens are
/// presented with different blanks and comments.
fn span_fingerprint(ts: proc_macro2::TokenStream, file: &str, starts: &[(usize, usize)], idx: &mut usize, out: &mut String) {
    use std::fmt::Write;
    for tt in ts {
        let span = tt.span();
        let sp = span.start();
        if sp.line != 0 || sp.column != 0 {
            if span.file() != file {
                // a token educe obtained by re-parsing a string it had printed: it points into that
                // string, not into the input
                let _ = write!(out, " {}@r", *idx);
            } else {
                match starts.iter().position(|p| *p == (sp.line, sp.column)) {
                    Some(k) => {
                        let _ = write!(out, " {}@{}", *idx, k);
                    },
                    None => {
                        let _ = write!(out, " {}@?", *idx);
                    },
                }
            }
        }
        *idx += 1;
        if let proc_macro2::TokenTree::Group(g) = tt {
            span_fingerprint(g.stream(), file, starts, idx, out);
        }
    }
}

/// The same token stream, written with PRNG-chosen blanks, newlines and comments between tokens.
pub fn render_noisy(ts: proc_macro2::TokenStream, rng: &mut Rng, out: &mut String) {
    use proc_macro2::{Delimiter, Spacing, TokenTree};
    let sep = |rng: &mut Rng, out: &mut String| match rng.below(12) {
        0 => out.push('\n'),
        1 => out.push_str("  "),
        2 => out.push_str(" /* x */ "),
        3 => out.push_str(" // y\n"),
        4 => out.push_str("\n\n    "),
        5 => out.push('\t'),
        _ => out.push(' '),
    };
    for tt in ts {
        match tt {
            TokenTree::Group(g) => {
                let (o, c) = match g.delimiter() {
                    Delimiter::Parenthesis => ("(", ")"),
                    Delimiter::Brace => ("{", "}"),
                    Delimiter::Bracket => ("[", "]"),
                    Delimiter::None => ("", ""),
                };
                out.push_str(o);
                sep(rng, out);
                render_noisy(g.stream(), rng, out);
                sep(rng, out);
                out.push_str(c);
                sep(rng, out);
            },
            TokenTree::Punct(p) => {
                out.push(p.as_char());
                // a joint punct must touch the next token (`::`, `->`, `'a`, `..=`)
                if p.spacing() == Spacing::Alone {
                    sep(rng, out);
                }
            },
            other => {
                out.push_str(&other.to_string());
                sep(rng, out);
            },
        }
    }
}

/// The one place where code under test runs.
pub fn expand_once(text: &str) -> String {
    expand_fmt(text, 0)
}

pub fn expand_fmt(text: &str, fmt: u64) -> String {
    let r = std::panic::catch_unwind(|| {
        let presented: String;
        let text = if fmt == 0 {
            text
        } else {
            match text.parse::<proc_macro2::TokenStream>() {
                Ok(ts) => {
                    let mut s = String::new();
                    render_noisy(ts, &mut Rng::new(fmt), &mut s);
                    presented = s;
                    &presented
                },
                Err(e) => return format!("LEXERR:{e}"),
            }
        };
        let ts: proc_macro2::TokenStream = match text.parse() {
            Ok(ts) => ts,
            Err(e) => return format!("LEXERR:{e}"),
        };
        let mut starts = vec![];
        token_starts(ts.clone(), &mut starts);
        let file = ts.clone().into_iter().next().map(|t| t.span().file()).unwrap_or_default();
        let out = educe::educe_derive_verif(ts);
        let mut text = out.to_string();
        // a token stream is text + spans
        let mut spans = String::new();
        let mut idx = 0usize;
        span_fingerprint(out, &file, &starts, &mut idx, &mut spans);
        if !spans.is_empty() {
            text.push_str("\n// spans:");
            text.push_str(&spans);
        }
        text
    });
    match r {
        Ok(s) => s,
        Err(p) => {
            let msg = if let Some(s) = p.downcast_ref::<&str>() {
                s.to_string()
            } else if let Some(s) = p.downcast_ref::<String>() {
                s.clone()
            } else {
                "<non-string payload>".to_string()
            };
            format!("PANIC:{msg}")
        },
    }
}

fn reply(bytes: &[u8]) {
    let out = std::io::stdout();
    let mut w = out.lock();
    let _ = w.write_all(bytes);
    let _ = w.flush();
}

fn worker_main(slot: Arc<Slot>) {
    seams::IS_WORKER.with(|c| c.set(true));
    // first RandomState on this thread: draws this worker's key pair through `getrandom`
    let fp = keyfp();
    let cn = canary();
    reply(format!("ok {fp:016x} {cn}\n").as_bytes());
    slot.finish();
    let mut live: Vec<Vec<u8>> = Vec::new();
    loop {
        match slot.take() {
            Cmd::Expand(text, fmt) => {
                let fp = keyfp();
                let mut out = expand_fmt(&text, fmt);
                drop(text);
                let head = format!("R {fp:016x} {}\n", out.len());
                out.push('\n');
                let o = std::io::stdout();
                let mut w = o.lock();
                let _ = w.write_all(head.as_bytes());
                let _ = w.write_all(out.as_bytes());
                let _ = w.flush();
                drop(w);
                drop(out);
                drop(head);
                slot.finish();
            },
            Cmd::Probe => {
                // seam self-test: go through std's public API exactly as code under test would
                let env = std::env::var("VERIF_PROBE_UNSET_NAME_A").unwrap_or_else(|_| "-".into());
                let env2 = std::env::var("VERIF_PROBE_SET").unwrap_or_else(|_| "-".into());
                let envx = std::env::var("EDUCE_SOME_KNOB").unwrap_or_else(|_| "-".into());
                let cwd = std::env::current_dir().map(|p| p.display().to_string()).unwrap_or_default();
                let f = std::fs::File::open("/definitely/not/here").is_ok();
                let ncpu = std::thread::available_parallelism().map(|n| n.get()).unwrap_or(0);
                let now = std::time::SystemTime::now()
                    .duration_since(std::time::UNIX_EPOCH)
                    .map(|d| d.as_secs() as i64)
                    .unwrap_or(-1);
                let pid = std::process::id();
                let exe = std::env::current_exe().map(|p| p.file_name().map(|n| n.to_string_lossy().into_owned()).unwrap_or_default()).unwrap_or_default();
                let argc = std::env::args().count();
                let t1 = std::time::Instant::now();
                let t2 = std::time::Instant::now();
                let elapsed = t2.duration_since(t1).as_nanos();
                let tty = std::io::IsTerminal::is_terminal(&std::io::stderr());
                let heap = Box::new(0u8);
                let addr = &*heap as *const u8 as usize;
                reply(format!("ok env={env},{env2},{envx} cwd={cwd} open={f} ncpu={ncpu} now={now} pid={pid} exe={exe} argc={argc} elapsed={elapsed} tty={tty} heap={addr:x}\n").as_bytes());
                slot.finish();
            },
            Cmd::Frag(seed, n) => {
                // allocate n blocks of PRNG sizes, free a PRNG subset, keep the rest alive on this
                // worker so that later allocations land at different addresses
                let mut rng = Rng::new(seed);
                let mut blocks: Vec<Option<Vec<u8>>> = Vec::new();
                for _ in 0..n {
                    let sz = match rng.below(4) {
                        0 => rng.range(1, 32),
                        1 => rng.range(33, 256),
                        2 => rng.range(257, 4096),
                        _ => rng.range(4097, 70000),
                    } as usize;
                    blocks.push(Some(vec![0xA5u8; sz]));
                }
                for b in blocks.iter_mut() {
                    if rng.chance(1, 2) {
                        *b = None;
                    }
                }
                live.extend(blocks.into_iter().flatten());
                if live.len() > 4096 {
                    live.drain(0..2048);
                }
                reply(format!("ok {}\n", live.len()).as_bytes());
                slot.finish();
            },
            Cmd::Quit => break,
        }
    }
    drop(live);
    slot.finish();
}

fn read_payload<R: BufRead>(r: &mut R, len: usize) -> std::io::Result<String> {
    let mut buf = vec![0u8; len + 1];
    r.read_exact(&mut buf)?;
    buf.pop(); // trailing newline
    String::from_utf8(buf).map_err(|_| std::io::Error::new(std::io::ErrorKind::InvalidData, "utf8"))
}

extern "C" {
    fn mmap(addr: *mut u8, len: usize, prot: i32, flags: i32, fd: i32, off: i64) -> *mut u8;
}

/// Simulated address-space layout: with the kernel's randomisation off, the scheduler decides how
/// far the mmap area (thread stacks, malloc arenas of worker threads) and the main heap are shifted.
fn apply_address_slide() -> (usize, usize) {
    let get = |k: &str| std::env::var(k).ok().and_then(|v| v.parse::<usize>().ok()).unwrap_or(0);
    let (m, b) = (get("VERIF_SLIDE_MMAP"), get("VERIF_SLIDE_BRK"));
    if m > 0 {
        // PROT_NONE | MAP_PRIVATE|MAP_ANONYMOUS|MAP_NORESERVE: address space only, no memory
        unsafe {
            mmap(std::ptr::null_mut(), m, 0, 0x02 | 0x20 | 0x4000, -1, 0);
        }
    }
    if b > 0 {
        let mut left = b;
        while left > 0 {
            let n = left.min(64 * 1024);
            std::mem::forget(Vec::<u8>::with_capacity(n));
            left -= n;
        }
    }
    (m, b)
}

pub fn host_main() -> i32 {
    std::panic::set_hook(Box::new(|_| {}));
    apply_address_slide();
    let envnum = |k: &str| std::env::var(k).ok().and_then(|v| v.parse::<u64>().ok()).unwrap_or(0);
    seams::ENV_SEED.store(envnum("VERIF_ENV_SEED"), Ordering::SeqCst);
    seams::SIM_NCPU.store(envnum("VERIF_NCPU"), Ordering::SeqCst);
    seams::SIM_CLOCK_STEP_NS.store(envnum("VERIF_CLOCK_STEP_NS") as i64, Ordering::SeqCst);
    seams::SIM_ISATTY.store(envnum("VERIF_ISATTY"), Ordering::SeqCst);
    let stdin = std::io::stdin();
    let mut r = BufReader::new(stdin.lock());
    let mut inputs: BTreeMap<u64, Arc<String>> = BTreeMap::new();
    let mut workers: BTreeMap<u64, Worker> = BTreeMap::new();
    let mut line = String::new();
    // the main loop never holds the stdout lock across a hand-over: workers write their own replies
    let say = |s: &str| reply(s.as_bytes());
    loop {
        line.clear();
        match r.read_line(&mut line) {
            Ok(0) => return 0,
            Ok(_) => {},
            Err(_) => return 3,
        }
        let parts: Vec<&str> = line.trim_end().split(' ').collect();
        match parts[0] {
            "I" if parts.len() == 3 => {
                let id: u64 = parts[1].parse().unwrap_or(0);
                let len: usize = parts[2].parse().unwrap_or(0);
                match read_payload(&mut r, len) {
                    Ok(s) => {
                        inputs.insert(id, Arc::new(s));
                        say("ok\n");
                    },
                    Err(_) => return 3,
                }
            },
            "S" if parts.len() == 3 => {
                let id: u64 = parts[1].parse().unwrap_or(0);
                let entropy: u64 = parts[2].parse().unwrap_or(0);
                if workers.contains_key(&id) {
                    say("err worker exists\n");
                    continue;
                }
                // the scheduler fixes the entropy *before* the thread exists
                seams::WORKER_ENTROPY.store(entropy, Ordering::SeqCst);
                let slot = Arc::new(Slot::new());
                let s2 = slot.clone();
                // the thread's name is part of its environment too: a function of the entropy value
                let mut b = std::thread::Builder::new().stack_size(64 << 20);
                if entropy == 0 {
                    b = b.name("worker".to_string());
                } else {
                    let h = crate::prng::mix64(entropy ^ 0x7A3E);
                    let pool = ["rustc", "main", "worker-3", "educe-7", "pm-17", "tokio-runtime-worker"];
                    if h % 7 != 6 {
                        b = b.name(pool[(h % 7) as usize % pool.len()].to_string());
                    }
                }
                let handle = b
                    .spawn(move || worker_main(s2))
                    .expect("spawn worker");
                // the worker announces itself (`ok <keyfp> <canary>`) and parks
                slot.wait_done();
                workers.insert(id, Worker { slot, handle });
            },
            "K" if parts.len() == 2 => {
                let id: u64 = parts[1].parse().unwrap_or(0);
                if let Some(wk) = workers.remove(&id) {
                    wk.slot.call(Cmd::Quit);
                    let _ = wk.handle.join();
                    say("ok\n");
                } else {
                    say("err no such worker\n");
                }
            },
            "X" if parts.len() == 4 => {
                let id: u64 = parts[1].parse().unwrap_or(0);
                let iid: u64 = parts[2].parse().unwrap_or(0);
                let fmt: u64 = parts[3].parse().unwrap_or(0);
                let (Some(wk), Some(text)) = (workers.get(&id), inputs.get(&iid)) else {
                    say("err no such worker or input\n");
                    continue;
                };
                wk.slot.call(Cmd::Expand(text.clone(), fmt));
            },
            "C" if parts.len() == 3 => {
                seams::SIM_CLOCK_S.store(parts[1].parse().unwrap_or(0), Ordering::SeqCst);
                seams::SIM_CLOCK_NS.store(parts[2].parse().unwrap_or(0), Ordering::SeqCst);
                say("ok\n");
            },
            "P" if parts.len() == 2 => {
                seams::SIM_PID.store(parts[1].parse().unwrap_or(1), Ordering::SeqCst);
                say("ok\n");
            },
            "F" if parts.len() == 4 => {
                let id: u64 = parts[1].parse().unwrap_or(0);
                let seed: u64 = parts[2].parse().unwrap_or(0);
                let n: u64 = parts[3].parse().unwrap_or(0);
                let Some(wk) = workers.get(&id) else {
                    say("err no such worker\n");
                    continue;
                };
                wk.slot.call(Cmd::Frag(seed, n));
            },
            "Y" if parts.len() == 2 => {
                let id: u64 = parts[1].parse().unwrap_or(0);
                let Some(wk) = workers.get(&id) else {
                    say("err no such worker\n");
                    continue;
                };
                wk.slot.call(Cmd::Probe);
            },
            "T" => {
                say(&format!(
                    "stats {} {} {} {} {} {} {} {}\n",
                    seams::GETRANDOM_CALLS_WORKER.load(Ordering::SeqCst),
                    seams::GETRANDOM_CALLS_OTHER.load(Ordering::SeqCst),
                    seams::CLOCK_READS_WORKER.load(Ordering::SeqCst),
                    seams::PID_READS_WORKER.load(Ordering::SeqCst),
                    seams::ENV_READS_WORKER.load(Ordering::SeqCst),
                    seams::CWD_READS_WORKER.load(Ordering::SeqCst),
                    seams::FS_CALLS_WORKER.load(Ordering::SeqCst),
                    seams::NCPU_READS_WORKER.load(Ordering::SeqCst)
                ));
            },
            "N" => {
                let names = seams::ENV_NAMES.lock().map(|n| n.join(" ")).unwrap_or_default();
                say(&format!("ok {names}\n"));
            },
            "Q" => {
                for (_, wk) in std::mem::take(&mut workers) {
                    wk.slot.call(Cmd::Quit);
                    let _ = wk.handle.join();
                }
                return 0;
            },
            _ => say("err unknown command\n"),
        }
    }
}

#[allow(dead_code)]
fn _unused(_: &mut dyn Read) {}
