//! `educe-sim host`: one simulated *process*. A real child process that serves a line protocol on
//! stdin/stdout. It owns worker threads (real OS threads, parked on a channel and released one
//! command at a time — the host main loop never lets two of them run at once) and runs the real
//! educe entry point on them. Entropy, clock and pid come from `seams`.
//!
//! Protocol (one command per line, payloads length-prefixed):
//!   I <id> <len>\n<bytes>\n      register input text            -> ok
//!   S <w> <entropy>              spawn worker w                 -> ok <keyfp> <canary>
//!   K <w>                        worker exits (thread joined)   -> ok
//!   X <w> <id>                   expand input id on worker w    -> R <keyfp> <len>\n<bytes>\n
//!   C <sec> <nsec>               set simulated clock            -> ok
//!   P <pid>                      set simulated pid              -> ok
//!   F <w> <seed> <n>             heap pre-fragmentation on w    -> ok <live blocks>
//!   T                            seam probes                    -> stats a b c d
//!   Q                            exit

use std::collections::BTreeMap;
use std::collections::HashMap;
use std::hash::{BuildHasher, RandomState};
use std::io::{BufRead, BufReader, Read, Write};
use std::sync::atomic::Ordering;
use std::sync::mpsc::{channel, Receiver, Sender};
use std::sync::Arc;
use std::thread::JoinHandle;

use crate::prng::Rng;
use crate::seams;

enum Cmd {
    Expand(Arc<String>),
    Frag(u64, u64),
    Quit,
}

enum Reply {
    Spawned(u64, String),
    Expanded(u64, String),
    Fragged(usize),
}

struct Worker {
    tx: Sender<Cmd>,
    rx: Receiver<Reply>,
    handle: JoinHandle<()>,
}

fn keyfp() -> u64 {
    RandomState::new().hash_one(0u64)
}

/// a harness-owned hash map: if its order never changes between entropy values the seam is dead
fn canary() -> String {
    let mut m: HashMap<u32, ()> = HashMap::new();
    for k in 0..4u32 {
        m.insert(k, ());
    }
    m.keys().map(|k| k.to_string()).collect::<Vec<_>>().join("")
}

/// The one place where code under test runs.
pub fn expand_once(text: &str) -> String {
    let r = std::panic::catch_unwind(|| {
        let ts: proc_macro2::TokenStream = match text.parse() {
            Ok(ts) => ts,
            Err(e) => return format!("LEXERR:{e}"),
        };
        educe::educe_derive_verif(ts).to_string()
    });
    match r {
        Ok(s) => s,
        Err(p) => {
            let msg = if let Some(s) = p.downcast_ref::<&str>() {
                s.to_string()
            } else if let Some(s) = p.downcast_ref::<String>() {
                s.clone()
            } else {
                "<non-string payload>".to_string()
            };
            format!("PANIC:{msg}")
        },
    }
}

fn worker_main(rx: Receiver<Cmd>, tx: Sender<Reply>) {
    seams::IS_WORKER.with(|c| c.set(true));
    // first RandomState on this thread: draws this worker's key pair through `getrandom`
    let fp = keyfp();
    let cn = canary();
    let _ = tx.send(Reply::Spawned(fp, cn));
    let mut live: Vec<Vec<u8>> = Vec::new();
    while let Ok(cmd) = rx.recv() {
        match cmd {
            Cmd::Expand(text) => {
                let fp = keyfp();
                let out = expand_once(&text);
                let _ = tx.send(Reply::Expanded(fp, out));
            },
            Cmd::Frag(seed, n) => {
                // allocate n blocks of PRNG sizes, free a PRNG subset, keep the rest alive on this
                // worker so that later allocations land at different addresses
                let mut rng = Rng::new(seed);
                let mut blocks: Vec<Option<Vec<u8>>> = Vec::new();
                for _ in 0..n {
                    let sz = match rng.below(4) {
                        0 => rng.range(1, 32),
                        1 => rng.range(33, 256),
                        2 => rng.range(257, 4096),
                        _ => rng.range(4097, 70000),
                    } as usize;
                    blocks.push(Some(vec![0xA5u8; sz]));
                }
                for b in blocks.iter_mut() {
                    if rng.chance(1, 2) {
                        *b = None;
                    }
                }
                live.extend(blocks.into_iter().flatten());
                if live.len() > 4096 {
                    live.drain(0..2048);
                }
                let _ = tx.send(Reply::Fragged(live.len()));
            },
            Cmd::Quit => break,
        }
    }
}

fn read_payload<R: BufRead>(r: &mut R, len: usize) -> std::io::Result<String> {
    let mut buf = vec![0u8; len + 1];
    r.read_exact(&mut buf)?;
    buf.pop(); // trailing newline
    String::from_utf8(buf).map_err(|_| std::io::Error::new(std::io::ErrorKind::InvalidData, "utf8"))
}

pub fn host_main() -> i32 {
    std::panic::set_hook(Box::new(|_| {}));
    let stdin = std::io::stdin();
    let mut r = BufReader::new(stdin.lock());
    let stdout = std::io::stdout();
    let mut w = stdout.lock();
    let mut inputs: BTreeMap<u64, Arc<String>> = BTreeMap::new();
    let mut workers: BTreeMap<u64, Worker> = BTreeMap::new();
    let mut line = String::new();
    loop {
        line.clear();
        match r.read_line(&mut line) {
            Ok(0) => return 0,
            Ok(_) => {},
            Err(_) => return 3,
        }
        let parts: Vec<&str> = line.trim_end().split(' ').collect();
        let bad = |w: &mut dyn Write, why: &str| {
            let _ = writeln!(w, "err {why}");
            let _ = w.flush();
        };
        match parts[0] {
            "I" if parts.len() == 3 => {
                let id: u64 = parts[1].parse().unwrap_or(0);
                let len: usize = parts[2].parse().unwrap_or(0);
                match read_payload(&mut r, len) {
                    Ok(s) => {
                        inputs.insert(id, Arc::new(s));
                        let _ = writeln!(w, "ok");
                    },
                    Err(_) => return 3,
                }
            },
            "S" if parts.len() == 3 => {
                let id: u64 = parts[1].parse().unwrap_or(0);
                let entropy: u64 = parts[2].parse().unwrap_or(0);
                if workers.contains_key(&id) {
                    bad(&mut w, "worker exists");
                    continue;
                }
                // the scheduler fixes the entropy *before* the thread exists
                seams::WORKER_ENTROPY.store(entropy, Ordering::SeqCst);
                let (ctx, crx) = channel::<Cmd>();
                let (rtx, rrx) = channel::<Reply>();
                let handle = std::thread::Builder::new()
                    .name(format!("worker-{id}"))
                    .stack_size(64 << 20)
                    .spawn(move || worker_main(crx, rtx))
                    .expect("spawn worker");
                match rrx.recv() {
                    Ok(Reply::Spawned(fp, cn)) => {
                        let _ = writeln!(w, "ok {fp:016x} {cn}");
                    },
                    _ => {
                        bad(&mut w, "worker died at spawn");
                        continue;
                    },
                }
                workers.insert(id, Worker { tx: ctx, rx: rrx, handle });
            },
            "K" if parts.len() == 2 => {
                let id: u64 = parts[1].parse().unwrap_or(0);
                if let Some(wk) = workers.remove(&id) {
                    let _ = wk.tx.send(Cmd::Quit);
                    let _ = wk.handle.join();
                    let _ = writeln!(w, "ok");
                } else {
                    bad(&mut w, "no such worker");
                }
            },
            "X" if parts.len() == 3 => {
                let id: u64 = parts[1].parse().unwrap_or(0);
                let iid: u64 = parts[2].parse().unwrap_or(0);
                let (Some(wk), Some(text)) = (workers.get(&id), inputs.get(&iid)) else {
                    bad(&mut w, "no such worker or input");
                    continue;
                };
                let _ = wk.tx.send(Cmd::Expand(text.clone()));
                match wk.rx.recv() {
                    Ok(Reply::Expanded(fp, out)) => {
                        let _ = writeln!(w, "R {fp:016x} {}", out.len());
                        let _ = w.write_all(out.as_bytes());
                        let _ = w.write_all(b"\n");
                    },
                    _ => bad(&mut w, "worker died"),
                }
            },
            "C" if parts.len() == 3 => {
                seams::SIM_CLOCK_S.store(parts[1].parse().unwrap_or(0), Ordering::SeqCst);
                seams::SIM_CLOCK_NS.store(parts[2].parse().unwrap_or(0), Ordering::SeqCst);
                let _ = writeln!(w, "ok");
            },
            "P" if parts.len() == 2 => {
                seams::SIM_PID.store(parts[1].parse().unwrap_or(1), Ordering::SeqCst);
                let _ = writeln!(w, "ok");
            },
            "F" if parts.len() == 4 => {
                let id: u64 = parts[1].parse().unwrap_or(0);
                let seed: u64 = parts[2].parse().unwrap_or(0);
                let n: u64 = parts[3].parse().unwrap_or(0);
                let Some(wk) = workers.get(&id) else {
                    bad(&mut w, "no such worker");
                    continue;
                };
                let _ = wk.tx.send(Cmd::Frag(seed, n));
                match wk.rx.recv() {
                    Ok(Reply::Fragged(k)) => {
                        let _ = writeln!(w, "ok {k}");
                    },
                    _ => bad(&mut w, "worker died"),
                }
            },
            "T" => {
                let _ = writeln!(
                    w,
                    "stats {} {} {} {}",
                    seams::GETRANDOM_CALLS_WORKER.load(Ordering::SeqCst),
                    seams::GETRANDOM_CALLS_OTHER.load(Ordering::SeqCst),
                    seams::CLOCK_READS_WORKER.load(Ordering::SeqCst),
                    seams::PID_READS_WORKER.load(Ordering::SeqCst)
                );
            },
            "Q" => {
                for (_, wk) in std::mem::take(&mut workers) {
                    let _ = wk.tx.send(Cmd::Quit);
                    let _ = wk.handle.join();
                }
                return 0;
            },
            _ => bad(&mut w, "unknown command"),
        }
        if w.flush().is_err() {
            return 3;
        }
    }
}

#[allow(dead_code)]
fn _unused(_: &mut dyn Read) {}
