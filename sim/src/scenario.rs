//! A scenario is a fully explicit, PRNG-free description of an experiment: a table of inputs and a
//! list of *worlds*; each world is one simulated process (fresh child) with its environment and an
//! ordered list of operations. Replay files are scenarios. Executing a scenario returns every
//! observed expansion outcome; the C16 oracle is "all outcomes of the same input text are equal".

use std::collections::BTreeMap;

use crate::json::J;
use crate::proc::{HResult, HostStats, Proc};

#[derive(Clone, Debug, PartialEq)]
pub enum Op {
    Spawn { w: u64, entropy: u64 },
    Kill { w: u64 },
    /// `fmt` != 0: the same tokens are presented with PRNG-chosen blanks, newlines and comments
    Expand { w: u64, input: usize, fmt: u64 },
    Clock { s: i64, ns: i64 },
    Pid { pid: i64 },
    Frag { w: u64, seed: u64, n: u64 },
    /// everything on the scenario's disk disappears (cleaned build dir, evicted cache, new machine)
    FsWipe,
    /// one file on the scenario's disk is cut short at a PRNG-chosen length: what a writer that was
    /// killed half-way (or a torn / lost write) leaves behind
    FsTear { seed: u64 },
}

impl Op {
    pub fn is_perturbation(&self) -> bool {
        matches!(self, Op::Clock { .. } | Op::Pid { .. } | Op::Frag { .. } | Op::FsWipe | Op::FsTear { .. })
    }
}

/// The disk of one scenario: a directory that starts empty, is shared by the scenario's simulated
/// processes (they are processes on one machine), and is removed afterwards.
pub struct Sandbox {
    pub dir: std::path::PathBuf,
}

impl Sandbox {
    pub fn new() -> Sandbox {
        use std::sync::atomic::{AtomicU64, Ordering};
        static N: AtomicU64 = AtomicU64::new(0);
        let root = std::env::var("VERIF_SANDBOX_ROOT").map(std::path::PathBuf::from).unwrap_or_else(|_| {
            // <verif>/build/target-sim/release/educe-sim -> <verif>/build/sandbox
            std::env::current_exe()
                .ok()
                .and_then(|e| e.parent().and_then(|p| p.parent()).and_then(|p| p.parent()).map(|p| p.join("sandbox")))
                .unwrap_or_else(|| std::env::temp_dir().join("educe-sim-sandbox"))
        });
        let dir = root.join(format!("{}-{}", std::process::id(), N.fetch_add(1, Ordering::SeqCst)));
        let _ = std::fs::remove_dir_all(&dir);
        let _ = std::fs::create_dir_all(&dir);
        Sandbox { dir }
    }

    pub fn wipe(&self) {
        if let Ok(rd) = std::fs::read_dir(&self.dir) {
            for e in rd.flatten() {
                let p = e.path();
                if p.is_dir() {
                    // keep the directories processes may be standing in; drop their contents
                    if let Ok(inner) = std::fs::read_dir(&p) {
                        for i in inner.flatten() {
                            let ip = i.path();
                            if ip.is_dir() {
                                let _ = std::fs::remove_dir_all(ip);
                            } else {
                                let _ = std::fs::remove_file(ip);
                            }
                        }
                    }
                } else {
                    let _ = std::fs::remove_file(p);
                }
            }
        }
    }
}

impl Sandbox {
    fn files(dir: &std::path::Path, out: &mut Vec<std::path::PathBuf>) {
        if let Ok(rd) = std::fs::read_dir(dir) {
            let mut es: Vec<std::path::PathBuf> = rd.flatten().map(|e| e.path()).collect();
            es.sort();
            for p in es {
                if p.is_dir() {
                    Self::files(&p, out);
                } else {
                    out.push(p);
                }
            }
        }
    }

    /// Truncate one regular file (chosen by `seed` from the sorted listing) to a fraction of its
    /// length. Returns true if there was a file to tear.
    pub fn tear(&self, seed: u64) -> bool {
        let mut fs = vec![];
        Self::files(&self.dir, &mut fs);
        if fs.is_empty() {
            return false;
        }
        let mut r = crate::prng::Rng::new(seed);
        let f = &fs[r.usize(fs.len())];
        let len = std::fs::metadata(f).map(|m| m.len()).unwrap_or(0);
        let new_len = if len == 0 || r.chance(1, 3) { 0 } else { r.below(len) };
        std::fs::OpenOptions::new().write(true).open(f).and_then(|fh| fh.set_len(new_len)).is_ok()
    }
}

impl Drop for Sandbox {
    fn drop(&mut self) {
        let _ = std::fs::remove_dir_all(&self.dir);
    }
}

#[derive(Clone, Debug, PartialEq)]
pub struct World {
    pub name: String,
    pub env: Vec<(String, String)>,
    pub ops: Vec<Op>,
}

#[derive(Clone, Debug, PartialEq)]
pub struct Scenario {
    pub inputs: Vec<String>,
    pub worlds: Vec<World>,
}

#[derive(Clone, Debug)]
pub struct Obs {
    pub world: usize,
    pub op: usize,
    pub input: usize,
    pub keyfp: u64,
    pub outcome: String,
}

pub fn fnv64(s: &str) -> u64 {
    let mut h: u64 = 0xcbf2_9ce4_8422_2325;
    for b in s.as_bytes() {
        h ^= *b as u64;
        h = h.wrapping_mul(0x0000_0100_0000_01b3);
    }
    h
}

/// Execute one op on a live process. Returns an observation for Expand.
pub fn apply(p: &mut Proc, inputs: &[String], op: &Op) -> HResult<Option<(u64, String)>> {
    match op {
        Op::Spawn { w, entropy } => p.spawn_worker(*w, *entropy).map(|_| None),
        Op::Kill { w } => p.kill_worker(*w).map(|_| None),
        Op::Expand { w, input, fmt } => {
            p.register(*input as u64, &inputs[*input])?;
            p.expand(*w, *input as u64, *fmt).map(Some)
        },
        Op::Clock { s, ns } => p.set_clock(*s, *ns).map(|_| None),
        Op::Pid { pid } => p.set_pid(*pid).map(|_| None),
        Op::Frag { w, seed, n } => p.frag(*w, *seed, *n).map(|_| None),
        Op::FsWipe | Op::FsTear { .. } => Ok(None), // scheduler-side: handled by the executor
    }
}

pub struct Execution {
    pub obs: Vec<Obs>,
    pub stats: Vec<HostStats>,
}

pub fn execute(sc: &Scenario) -> HResult<Execution> {
    let mut obs = vec![];
    let mut stats = vec![];
    let sandbox = Sandbox::new();
    for (wi, world) in sc.worlds.iter().enumerate() {
        let mut p = Proc::start(&world.env, Some(&sandbox.dir))?;
        for (oi, op) in world.ops.iter().enumerate() {
            if matches!(op, Op::FsWipe) {
                sandbox.wipe();
                continue;
            }
            if let Op::FsTear { seed } = op {
                sandbox.tear(*seed);
                continue;
            }
            if let Some((fp, out)) = apply(&mut p, &sc.inputs, op)? {
                let Op::Expand { input, .. } = op else { unreachable!() };
                obs.push(Obs { world: wi, op: oi, input: *input, keyfp: fp, outcome: out });
            }
        }
        stats.push(p.stats()?);
        p.quit();
    }
    Ok(Execution { obs, stats })
}

/// The oracle. Returns the first pair of observations of the same input *text* whose outcomes differ.
pub fn first_disagreement<'a>(sc: &Scenario, obs: &'a [Obs]) -> Option<(&'a Obs, &'a Obs)> {
    let mut first: BTreeMap<&str, &Obs> = BTreeMap::new();
    for o in obs {
        let text = sc.inputs[o.input].as_str();
        match first.get(text) {
            None => {
                first.insert(text, o);
            },
            Some(f) => {
                if f.outcome != o.outcome {
                    return Some((f, o));
                }
            },
        }
    }
    None
}

// ------------------------------------------------------------------ JSON

fn op_to_json(op: &Op) -> J {
    match op {
        Op::Spawn { w, entropy } => {
            J::obj().set("op", J::s("spawn")).set("w", J::i(*w)).set("entropy", J::s(format!("{entropy}")))
        },
        Op::Kill { w } => J::obj().set("op", J::s("kill")).set("w", J::i(*w)),
        Op::Expand { w, input, fmt } => {
            let j = J::obj().set("op", J::s("expand")).set("w", J::i(*w)).set("input", J::i(*input as u64));
            if *fmt != 0 {
                j.set("fmt", J::s(format!("{fmt}")))
            } else {
                j
            }
        },
        Op::Clock { s, ns } => J::obj().set("op", J::s("clock")).set("s", J::i(*s)).set("ns", J::i(*ns)),
        Op::Pid { pid } => J::obj().set("op", J::s("pid")).set("pid", J::i(*pid)),
        Op::Frag { w, seed, n } => J::obj()
            .set("op", J::s("frag"))
            .set("w", J::i(*w))
            .set("seed", J::s(format!("{seed}")))
            .set("n", J::i(*n)),
        Op::FsWipe => J::obj().set("op", J::s("fs_wipe")),
        Op::FsTear { seed } => J::obj().set("op", J::s("fs_tear")).set("seed", J::s(format!("{seed}"))),
    }
}

fn op_from_json(j: &J) -> Result<Op, String> {
    let kind = j.get("op").and_then(|x| x.str()).ok_or("op missing")?;
    let num = |k: &str| -> Result<i128, String> {
        match j.get(k) {
            Some(J::Str(s)) => s.parse::<i128>().map_err(|e| e.to_string()),
            Some(v) => v.int().ok_or(format!("{k} not a number")),
            None => Err(format!("{k} missing")),
        }
    };
    Ok(match kind {
        "spawn" => Op::Spawn { w: num("w")? as u64, entropy: num("entropy")? as u64 },
        "kill" => Op::Kill { w: num("w")? as u64 },
        "expand" => Op::Expand { w: num("w")? as u64, input: num("input")? as usize, fmt: num("fmt").unwrap_or(0) as u64 },
        "clock" => Op::Clock { s: num("s")? as i64, ns: num("ns")? as i64 },
        "pid" => Op::Pid { pid: num("pid")? as i64 },
        "fs_wipe" => Op::FsWipe,
        "fs_tear" => Op::FsTear { seed: num("seed")? as u64 },
        "frag" => Op::Frag { w: num("w")? as u64, seed: num("seed")? as u64, n: num("n")? as u64 },
        other => return Err(format!("unknown op {other}")),
    })
}

impl Scenario {
    pub fn to_json(&self) -> J {
        J::obj()
            .set("inputs", J::Arr(self.inputs.iter().map(|s| J::s(s.clone())).collect()))
            .set(
                "worlds",
                J::Arr(
                    self.worlds
                        .iter()
                        .map(|w| {
                            J::obj()
                                .set("name", J::s(w.name.clone()))
                                .set(
                                    "env",
                                    J::Arr(
                                        w.env
                                            .iter()
                                            .map(|(k, v)| J::Arr(vec![J::s(k.clone()), J::s(v.clone())]))
                                            .collect(),
                                    ),
                                )
                                .set("ops", J::Arr(w.ops.iter().map(op_to_json).collect()))
                        })
                        .collect(),
                ),
            )
    }

    pub fn from_json(j: &J) -> Result<Scenario, String> {
        let inputs = j
            .get("inputs")
            .and_then(|x| x.arr())
            .ok_or("inputs missing")?
            .iter()
            .map(|x| x.str().map(|s| s.to_string()).ok_or("input not a string".to_string()))
            .collect::<Result<Vec<_>, _>>()?;
        let mut worlds = vec![];
        for w in j.get("worlds").and_then(|x| x.arr()).ok_or("worlds missing")? {
            let name = w.get("name").and_then(|x| x.str()).unwrap_or("").to_string();
            let mut env = vec![];
            for e in w.get("env").and_then(|x| x.arr()).unwrap_or(&vec![]) {
                let a = e.arr().ok_or("env entry")?;
                env.push((
                    a.first().and_then(|x| x.str()).unwrap_or("").to_string(),
                    a.get(1).and_then(|x| x.str()).unwrap_or("").to_string(),
                ));
            }
            let ops = w
                .get("ops")
                .and_then(|x| x.arr())
                .ok_or("ops missing")?
                .iter()
                .map(op_from_json)
                .collect::<Result<Vec<_>, _>>()?;
            for op in &ops {
                if let Op::Expand { input, .. } = op {
                    if *input >= inputs.len() {
                        return Err("input index out of range".into());
                    }
                }
            }
            worlds.push(World { name, env, ops });
        }
        Ok(Scenario { inputs, worlds })
    }
}
