//! Batches of runs: sharding over child simulator processes, merging, evidence, violations.

use std::collections::{BTreeMap, BTreeSet};
use std::path::{Path, PathBuf};
use std::process::{Command, Stdio};

use crate::corpus;
use crate::json::J;
use crate::prng::run_seed;
use crate::run::{execute_plan, log_hash, plan, RunResult, KINDS};
use crate::scenario::{Obs, Op, Scenario};
use crate::seams::real_now_s;
use crate::shrink;

pub struct Args {
    pub map: BTreeMap<String, String>,
}

impl Args {
    pub fn parse(args: &[String]) -> Args {
        let mut map = BTreeMap::new();
        let mut i = 0;
        while i < args.len() {
            if let Some(k) = args[i].strip_prefix("--") {
                if i + 1 < args.len() && !args[i + 1].starts_with("--") {
                    map.insert(k.to_string(), args[i + 1].clone());
                    i += 2;
                } else {
                    map.insert(k.to_string(), "1".to_string());
                    i += 1;
                }
            } else {
                map.insert(format!("_{}", map.len()), args[i].clone());
                i += 1;
            }
        }
        Args { map }
    }

    pub fn get(&self, k: &str, d: &str) -> String {
        self.map.get(k).cloned().unwrap_or_else(|| d.to_string())
    }

    pub fn u64(&self, k: &str, d: u64) -> u64 {
        self.map.get(k).and_then(|v| v.parse().ok()).unwrap_or(d)
    }
}

// ------------------------------------------------------------------ violation description

fn top_level_items(out: &str) -> Option<Vec<String>> {
    let ts: proc_macro2::TokenStream = out.parse().ok()?;
    let mut items = vec![];
    let mut cur: Vec<proc_macro2::TokenTree> = vec![];
    for tt in ts {
        let end = matches!(&tt, proc_macro2::TokenTree::Group(g) if g.delimiter() == proc_macro2::Delimiter::Brace)
            || matches!(&tt, proc_macro2::TokenTree::Punct(p) if p.as_char() == ';');
        cur.push(tt);
        if end {
            items.push(cur.drain(..).collect::<proc_macro2::TokenStream>().to_string());
        }
    }
    if !cur.is_empty() {
        items.push(cur.into_iter().collect::<proc_macro2::TokenStream>().to_string());
    }
    Some(items)
}

fn item_head(item: &str) -> String {
    match item.find('{') {
        Some(i) => item[..i].trim().to_string(),
        None => item.chars().take(120).collect(),
    }
}

/// A coarse description of *how* two outcomes differ; used for de-duplication, for the replay file
/// and for matching entries of known_findings.json.
pub fn signature(a: &str, b: &str) -> J {
    let class = |s: &str| crate::run::outcome_class(s);
    let (ca, cb) = (class(a), class(b));
    let ok = |c: &str| c.starts_with("ok_");
    let text = |s: &str| s.split("\n// spans:").next().unwrap_or(s).to_string();
    if ok(ca) && ok(cb) && text(a) == text(b) {
        return J::obj().set("kind", J::s("token_spans")).set("note", J::s("identical token text; the spans carried by the tokens differ"));
    }
    if ok(ca) && ok(cb) {
        if let (Some(ia), Some(ib)) = (top_level_items(a), top_level_items(b)) {
            let (mut sa, mut sb) = (ia.clone(), ib.clone());
            sa.sort();
            sb.sort();
            if sa == sb {
                let moved: Vec<J> = ia
                    .iter()
                    .zip(ib.iter())
                    .filter(|(x, y)| x != y)
                    .map(|(x, _)| J::s(item_head(x)))
                    .collect();
                return J::obj().set("kind", J::s("item_order")).set("moved_items", J::Arr(moved));
            }
            let only_a: Vec<J> = ia.iter().filter(|x| !ib.contains(x)).map(|x| J::s(item_head(x))).collect();
            let only_b: Vec<J> = ib.iter().filter(|x| !ia.contains(x)).map(|x| J::s(item_head(x))).collect();
            return J::obj()
                .set("kind", J::s("item_content"))
                .set("only_in_first", J::Arr(only_a))
                .set("only_in_second", J::Arr(only_b));
        }
        return J::obj().set("kind", J::s("tokens"));
    }
    if ca == "diagnostic" && cb == "diagnostic" && diag_text(a) == diag_text(b) {
        // same message: the tokens differ only in the span they carry (where the error points)
        let sp = |s: &str| s.split("// spans:").nth(1).unwrap_or("").trim().to_string();
        return J::obj()
            .set("kind", J::s("diagnostic_span"))
            .set("message", J::s(diag_text(a)))
            .set("first", J::s(sp(a)))
            .set("second", J::s(sp(b)));
    }
    if ca == "diagnostic" && cb == "diagnostic" {
        return J::obj()
            .set("kind", J::s("diagnostic_choice"))
            .set("first", J::s(diag_text(a)))
            .set("second", J::s(diag_text(b)));
    }
    J::obj().set("kind", J::s("outcome_class")).set("first", J::s(ca)).set("second", J::s(cb))
}

fn diag_text(out: &str) -> String {
    // `:: core :: compile_error ! { "message" }`
    let out = out.split("\n// spans:").next().unwrap_or(out);
    if let (Some(i), Some(j)) = (out.find('"'), out.rfind('"')) {
        if j > i {
            return out[i + 1..j].to_string();
        }
    }
    out.to_string()
}

pub fn simple_diff(a: &str, b: &str) -> String {
    // token-wise: common prefix / suffix, then the differing middles
    let ta: Vec<&str> = a.split(' ').collect();
    let tb: Vec<&str> = b.split(' ').collect();
    let mut p = 0;
    while p < ta.len() && p < tb.len() && ta[p] == tb[p] {
        p += 1;
    }
    let mut s = 0;
    while s < ta.len() - p && s < tb.len() - p && ta[ta.len() - 1 - s] == tb[tb.len() - 1 - s] {
        s += 1;
    }
    let clip = |v: &[&str]| -> String {
        let j = v.join(" ");
        if j.len() > 1500 {
            format!("{} … {}", &j[..floor_char(&j, 700)], &j[ceil_char(&j, j.len() - 700)..])
        } else {
            j
        }
    };
    format!(
        "common prefix: {p} tokens, common suffix: {s} tokens\n- {}\n+ {}",
        clip(&ta[p..ta.len() - s]),
        clip(&tb[p..tb.len() - s])
    )
}

fn floor_char(s: &str, mut i: usize) -> usize {
    while !s.is_char_boundary(i) {
        i -= 1;
    }
    i
}

fn ceil_char(s: &str, mut i: usize) -> usize {
    while !s.is_char_boundary(i) {
        i += 1;
    }
    i
}

// ------------------------------------------------------------------ known findings

pub struct Known {
    pub open: Vec<J>,
}

pub fn load_known(path: &Path) -> Known {
    let mut open = vec![];
    if let Ok(t) = std::fs::read_to_string(path) {
        if let Ok(j) = J::parse(&t) {
            for f in j.get("findings").and_then(|x| x.arr()).unwrap_or(&vec![]) {
                if f.get("property").and_then(|x| x.str()) == Some("C16") {
                    open.push(f.clone());
                }
            }
        }
    }
    Known { open }
}

/// An open finding matches a violation only through the specific shape it lists:
/// `{"match": {"kind": "item_order", "every_moved_item_contains": "..."}}` or
/// `{"match": {"kind": "diagnostic_choice", "both_messages_contain": "..."}}`.
pub fn matches_known(known: &Known, sig: &J) -> Option<String> {
    for f in &known.open {
        let Some(m) = f.get("match") else { continue };
        if m.get("kind").and_then(|x| x.str()) != sig.get("kind").and_then(|x| x.str()) {
            continue;
        }
        let what = f.get("what").and_then(|x| x.str()).unwrap_or("").to_string();
        match sig.get("kind").and_then(|x| x.str()) {
            Some("item_order") => {
                let Some(needle) = m.get("every_moved_item_contains").and_then(|x| x.str()) else { continue };
                let moved = sig.get("moved_items").and_then(|x| x.arr()).cloned().unwrap_or_default();
                if !moved.is_empty() && moved.iter().all(|i| i.str().map(|s| s.contains(needle)).unwrap_or(false)) {
                    return Some(what);
                }
            },
            Some("diagnostic_choice") => {
                let Some(needle) = m.get("both_messages_contain").and_then(|x| x.str()) else { continue };
                let a = sig.get("first").and_then(|x| x.str()).unwrap_or("");
                let b = sig.get("second").and_then(|x| x.str()).unwrap_or("");
                if a.contains(needle) && b.contains(needle) {
                    return Some(what);
                }
            },
            _ => {},
        }
    }
    None
}

// ------------------------------------------------------------------ replay files

pub fn obs_json(sc: &Scenario, o: &Obs) -> J {
    J::obj()
        .set("world", J::s(sc.worlds[o.world].name.clone()))
        .set("world_index", J::i(o.world as u64))
        .set("op_index", J::i(o.op as u64))
        .set("keyfp", J::s(format!("{:016x}", o.keyfp)))
        .set("outcome", J::s(o.outcome.clone()))
}

pub fn write_replay(
    dir: &Path,
    verif_seed: u64,
    run: u64,
    seed: u64,
    features: &str,
    m: &shrink::Minimised,
) -> std::io::Result<PathBuf> {
    std::fs::create_dir_all(dir)?;
    let sig = signature(&m.a.outcome, &m.b.outcome);
    let j = J::obj()
        .set("property", J::s("C16"))
        .set("engine", J::s("E1/E2 in-process expansion in simulated processes"))
        .set("verif_seed", J::s(format!("{verif_seed}")))
        .set("run", J::i(run))
        .set("run_seed", J::s(format!("{seed}")))
        .set("features", J::s(features))
        .set("target_input", J::i(m.target as u64))
        .set("signature", sig)
        .set("scenario", m.scenario.to_json())
        .set("observed", J::Arr(vec![obs_json(&m.scenario, &m.a), obs_json(&m.scenario, &m.b)]))
        .set("diff", J::s(simple_diff(&m.a.outcome, &m.b.outcome)))
        .set("minimisation", J::obj()
            .set("evaluations", J::i(m.evals as u64))
            .set("confirmed_replays_of_3", J::i(m.confirmed_replays as u64))
            .set("log", J::Arr(m.log.iter().map(|l| J::s(l.clone())).collect())))
        .set("seam_probes", J::s(m.probes.clone()));
    let path = dir.join(format!("C16-{verif_seed}-{run}.json"));
    std::fs::write(&path, j.to_string_pretty())?;
    Ok(path)
}

/// exit 1 iff the replayed scenario still shows two different outcomes for its target input
pub fn replay(path: &Path) -> i32 {
    let Ok(text) = std::fs::read_to_string(path) else {
        eprintln!("cannot read {}", path.display());
        return 2;
    };
    let j = match J::parse(&text) {
        Ok(j) => j,
        Err(e) => {
            eprintln!("bad replay file: {e}");
            return 2;
        },
    };
    if j.get("engine").and_then(|x| x.str()).map(|s| s.starts_with("E3")).unwrap_or(false) {
        return crate::e3::replay(&j, path);
    }
    if j.get("engine").and_then(|x| x.str()).map(|s| s.starts_with("E4")).unwrap_or(false) {
        return crate::e4::replay(&j, path);
    }
    let Some(scj) = j.get("scenario") else {
        eprintln!("replay file has no scenario");
        return 2;
    };
    let sc = match Scenario::from_json(scj) {
        Ok(s) => s,
        Err(e) => {
            eprintln!("bad scenario: {e}");
            return 2;
        },
    };
    let target = j.get("target_input").and_then(|x| x.u64()).unwrap_or(0) as usize;
    let mut sh = shrink::Shrinker { deadline: f64::MAX, evals: 0, budget: 1, target, log: vec![] };
    match crate::scenario::execute(&sc) {
        Err(e) => {
            eprintln!("harness error during replay: {e}");
            2
        },
        Ok(_) => match sh.fails(&sc) {
            Some(v) => {
                println!("replay: input {} yields two different outcomes", target);
                println!("  world {} op {} keyfp {:016x}", sc.worlds[v.a.world].name, v.a.op, v.a.keyfp);
                println!("  world {} op {} keyfp {:016x}", sc.worlds[v.b.world].name, v.b.op, v.b.keyfp);
                println!("{}", simple_diff(&v.a.outcome, &v.b.outcome));
                println!("VIOLATION property=C16 replay={}", path.display());
                1
            },
            None => {
                println!("replay: all outcomes agree (no violation)");
                0
            },
        },
    }
}

// ------------------------------------------------------------------ shard

fn count_fired(plan: &crate::run::Plan, res: &RunResult, fired: &mut BTreeMap<&'static str, u64>) {
    // what actually executed (a run that stops at a violation executes only a prefix)
    let sc = &plan.scenario;
    let mut cursor = vec![0usize; sc.worlds.len()];
    let mut started: BTreeSet<usize> = BTreeSet::new();
    // previous expansion per (world, worker): (input index, outcome class)
    let mut prev: BTreeMap<(usize, u64), (usize, &'static str)> = BTreeMap::new();
    let mut ev = res.events.iter().peekable();
    let mut bump = |k: &'static str| *fired.entry(k).or_insert(0) += 1;
    let mut last_clock: i64 = 1_700_000_000;
    for (n, &wi) in plan.order.iter().enumerate() {
        if n >= res.ops_executed {
            break;
        }
        let oi = cursor[wi];
        cursor[wi] += 1;
        if started.insert(wi) && wi != 0 {
            if sc.worlds[wi].env.iter().any(|(k, _)| k == "VERIF_ENV_SEED") {
                bump("env_noise");
            }
            if sc.worlds[wi].env.iter().any(|(k, _)| k == "VERIF_SLIDE_MMAP") {
                bump("address_slide");
            }
            if !sc.worlds[wi].name.ends_with("g0") {
                bump("process_restart");
            }
        }
        match &sc.worlds[wi].ops[oi] {
            Op::Spawn { .. } => bump("entropy_reseed"),
            Op::Kill { .. } if wi != 0 => bump("worker_restart"),
            Op::Kill { .. } => {},
            Op::Clock { s, .. } => {
                if *s < last_clock {
                    bump("clock_backwards");
                } else {
                    bump("clock_jump");
                }
                last_clock = *s;
            },
            Op::Pid { .. } => bump("pid_change"),
            Op::Frag { .. } => bump("heap_fragment"),
            Op::FsWipe => bump("fs_wipe"),
            Op::FsTear { .. } => bump("fs_tear"),
            Op::Expand { w, input, fmt } => {
                if *fmt != 0 {
                    bump("reformat");
                }
                if let Some(e) = ev.peek() {
                    if e.world == wi && e.op == oi {
                        ev.next();
                    }
                }
                if let Some((pi, pc)) = prev.get(&(wi, *w)) {
                    bump("history_nonempty");
                    match *pc {
                        "diagnostic" => bump("err_predecessor"),
                        "panic" => bump("panic_predecessor"),
                        _ => {},
                    }
                    if plan.names[*pi] == plan.names[*input] && sc.inputs[*pi] != sc.inputs[*input] {
                        bump("same_ident_predecessor");
                    }
                }
                let class = res
                    .classes_by_event
                    .get(&(wi, oi))
                    .copied()
                    .unwrap_or("unknown");
                prev.insert((wi, *w), (*input, class));
            },
        }
    }
}

pub fn shard_main(a: &Args) -> i32 {
    let verif_seed = a.u64("seed", 1);
    let from = a.u64("from", 0);
    let to = a.u64("to", 1);
    let thorough = a.get("tier", "quick") == "thorough";
    let repo = PathBuf::from(a.get("repo", "/repo"));
    let out = PathBuf::from(a.get("out", "shard.json"));
    let replay_dir = PathBuf::from(a.get("replay-dir", "replays"));
    let features = a.get("features", "default");
    let log_dir = a.map.get("log-dir").map(PathBuf::from);
    let max_violations = a.u64("max-violations", 2) as usize;
    // cross-build comparison: (input text, hash of its first outcome) for every input of every run
    let dump_firsts = a.map.get("dump-firsts").map(PathBuf::from);
    let mut firsts: Vec<(String, u64)> = vec![];
    let shrink_budget = a.u64("shrink-budget", 500) as usize;

    let corp = corpus::harvest(&repo);
    let t0 = real_now_s();

    let mut runs_j: Vec<J> = vec![];
    let mut fired: BTreeMap<&'static str, u64> = BTreeMap::new();
    let mut classes: BTreeMap<&'static str, u64> = BTreeMap::new();
    let mut nontrivial: BTreeSet<(u64, u64)> = BTreeSet::new();
    let mut hist: BTreeSet<u64> = BTreeSet::new();
    let mut canaries: BTreeSet<String> = BTreeSet::new();
    let mut expansions: u64 = 0;
    let mut ops: u64 = 0;
    let mut worlds: u64 = 0;
    let mut sim_clock_span: i128 = 0;
    let mut gr_worker = 0u64;
    let mut clock_reads = 0u64;
    let mut pid_reads = 0u64;
    let mut env_reads = 0u64;
    let mut cwd_reads = 0u64;
    let mut fs_calls = 0u64;
    let mut ncpu_reads = 0u64;
    let mut files_torn = 0u64;
    let mut violations: Vec<J> = vec![];
    let mut harness_errors: Vec<J> = vec![];
    let mut samples: Vec<J> = vec![];
    let mut inputs_seen: BTreeSet<u64> = BTreeSet::new();
    let mut role_counts: BTreeMap<&'static str, u64> = BTreeMap::new();

    for r in from..to {
        let seed = run_seed(verif_seed, r);
        let plan = plan(seed, &corp.inputs, thorough);
        let res = match execute_plan(&plan) {
            Ok(res) => res,
            Err(e) => {
                harness_errors.push(J::obj().set("run", J::i(r)).set("error", J::s(e.to_string())));
                continue;
            },
        };
        if dump_firsts.is_some() {
            for (idx, o) in &res.obs_first {
                firsts.push((plan.scenario.inputs[*idx].clone(), crate::scenario::fnv64(&o.outcome)));
            }
        }
        count_fired(&plan, &res, &mut fired);
        for (k, v) in &res.outcome_classes {
            *classes.entry(k).or_insert(0) += v;
        }
        for role in &plan.roles {
            *role_counts.entry(role).or_insert(0) += 1;
        }
        for t in &plan.scenario.inputs {
            inputs_seen.insert(crate::scenario::fnv64(t));
        }
        nontrivial.extend(res.nontrivial.iter().copied());
        hist.extend(res.hist_prefixes.iter().copied());
        canaries.extend(res.canaries.iter().cloned());
        files_torn += res.files_torn;
        expansions += res.events.len() as u64;
        ops += res.ops_executed as u64;
        worlds += plan.scenario.worlds.len() as u64;
        for s in &res.stats {
            gr_worker += s.getrandom_worker;
            clock_reads += s.clock_reads_worker;
            pid_reads += s.pid_reads_worker;
            env_reads += s.env_reads_worker;
            cwd_reads += s.cwd_reads_worker;
            fs_calls += s.fs_calls_worker;
            ncpu_reads += s.ncpu_reads_worker;
        }
        // simulated time covered: sum of |clock jumps|
        for w in &plan.scenario.worlds {
            let mut last = 1_700_000_000i64;
            for op in &w.ops {
                if let Op::Clock { s, .. } = op {
                    sim_clock_span += (*s as i128 - last as i128).abs();
                    last = *s;
                }
            }
        }
        let lh = log_hash(&res.events);
        runs_j.push(
            J::obj()
                .set("run", J::i(r))
                .set("seed", J::s(format!("{seed}")))
                .set("log_hash", J::s(format!("{lh:016x}")))
                .set("events", J::i(res.events.len() as u64))
                .set("ops", J::i(res.ops_executed as u64))
                .set("violation", J::Bool(res.violation.is_some())),
        );
        if let Some(dir) = &log_dir {
            let _ = std::fs::create_dir_all(dir);
            let mut s = format!("seed {seed}\n");
            for e in &res.events {
                s.push_str(&format!(
                    "{} {} {} {} {:016x} {:016x} {:016x}\n",
                    e.step, e.world, e.op, e.input, e.keyfp, e.out_hash, e.hist_hash
                ));
            }
            let _ = std::fs::write(dir.join(format!("run-{r}.log")), s);
        }
        if samples.len() < 2 {
            // one full schedule + a few event records, so a reader can see what a case looks like
            let evs: Vec<J> = res
                .events
                .iter()
                .take(6)
                .map(|e| {
                    J::obj()
                        .set("step", J::i(e.step as u64))
                        .set("world", J::s(plan.scenario.worlds[e.world].name.clone()))
                        .set("input", J::i(e.input as u64))
                        .set("role", J::s(plan.roles[e.input]))
                        .set("keyfp", J::s(format!("{:016x}", e.keyfp)))
                        .set("outcome_hash", J::s(format!("{:016x}", e.out_hash)))
                })
                .collect();
            let mut scj = plan.scenario.to_json();
            if samples.len() == 1 {
                scj = J::s("(omitted for the second sample)");
            }
            samples.push(
                J::obj()
                    .set("run", J::i(r))
                    .set("seed", J::s(format!("{seed}")))
                    .set("cfg", J::s(format!("{:?}", plan.cfg)))
                    .set("first_events", J::Arr(evs))
                    .set("schedule", scj),
            );
        }
        if let Some((f, o)) = &res.violation {
            if violations.len() < max_violations {
                let m = shrink::minimise(&plan.scenario, f, o, shrink_budget);
                match m {
                    Some(m) => {
                        let sig = signature(&m.a.outcome, &m.b.outcome);
                        match write_replay(&replay_dir, verif_seed, r, seed, &features, &m) {
                            Ok(p) => violations.push(
                                J::obj()
                                    .set("run", J::i(r))
                                    .set("replay", J::s(p.display().to_string()))
                                    .set("signature", sig)
                                    .set("input", J::s(m.scenario.inputs[m.target].clone())),
                            ),
                            Err(e) => harness_errors.push(J::obj().set("run", J::i(r)).set("error", J::s(format!("write replay: {e}")))),
                        }
                    },
                    None => {
                        // the live run disagreed but no from-scratch re-execution does: report the
                        // unminimised scenario rather than hide it
                        let sig = signature(&f.outcome, &o.outcome);
                        let m = shrink::Minimised {
                            probes: String::new(),
                            scenario: plan.scenario.clone(),
                            target: o.input,
                            a: f.clone(),
                            b: o.clone(),
                            evals: 0,
                            log: vec!["minimisation could not reproduce the disagreement from scratch; full schedule kept".into()],
                            confirmed_replays: 0,
                        };
                        if let Ok(p) = write_replay(&replay_dir, verif_seed, r, seed, &features, &m) {
                            violations.push(
                                J::obj()
                                    .set("run", J::i(r))
                                    .set("replay", J::s(p.display().to_string()))
                                    .set("signature", sig)
                                    .set("unminimised", J::Bool(true))
                                    .set("input", J::s(plan.scenario.inputs[o.input].clone())),
                            );
                        }
                    },
                }
            } else {
                violations.push(J::obj().set("run", J::i(r)).set("replay", J::Null).set("signature", signature(&f.outcome, &o.outcome)));
            }
        }
    }

    if let Some(dir) = &dump_firsts {
        let _ = std::fs::create_dir_all(dir);
        let mut t = String::new();
        for (text, h) in &firsts {
            t.push_str(&J::obj().set("in", J::s(text.clone())).set("out", J::s(format!("{h:016x}"))).to_string_compact());
            t.push('\n');
        }
        let _ = std::fs::write(dir.join(format!("firsts-{from}.jsonl")), t);
    }
    let wall = real_now_s() - t0;
    let j = J::obj()
        .set("from", J::i(from))
        .set("to", J::i(to))
        .set("wall_s", J::Num(wall))
        .set("corpus_sites", J::i(corp.sites as u64))
        .set("corpus_distinct", J::i(corp.inputs.len() as u64))
        .set("corpus_by_origin", J::Obj(corp.by_origin.iter().map(|(k, v)| (k.clone(), J::i(*v as u64))).collect()))
        .set("runs", J::Arr(runs_j))
        .set("expansions", J::i(expansions))
        .set("ops", J::i(ops))
        .set("worlds", J::i(worlds))
        .set("sim_clock_span_s", J::Int(sim_clock_span))
        .set("getrandom_worker", J::i(gr_worker))
        .set("clock_reads_worker", J::i(clock_reads))
        .set("pid_reads_worker", J::i(pid_reads))
        .set("env_reads_worker", J::i(env_reads))
        .set("cwd_reads_worker", J::i(cwd_reads))
        .set("fs_calls_worker", J::i(fs_calls))
        .set("ncpu_reads_worker", J::i(ncpu_reads))
        .set("files_torn", J::i(files_torn))
        .set("fired", J::Obj(fired.iter().map(|(k, v)| (k.to_string(), J::i(*v))).collect()))
        .set("outcome_classes", J::Obj(classes.iter().map(|(k, v)| (k.to_string(), J::i(*v))).collect()))
        .set("roles", J::Obj(role_counts.iter().map(|(k, v)| (k.to_string(), J::i(*v))).collect()))
        .set("nontrivial_pairs", J::Arr(nontrivial.iter().map(|(a, b)| J::s(format!("{a:016x}{b:016x}"))).collect()))
        .set("hist_prefixes", J::Arr(hist.iter().map(|h| J::s(format!("{h:016x}"))).collect()))
        .set("inputs_seen", J::Arr(inputs_seen.iter().map(|h| J::s(format!("{h:016x}"))).collect()))
        .set("canaries", J::Arr(canaries.iter().map(|c| J::s(c.clone())).collect()))
        .set("violations", J::Arr(violations))
        .set("harness_errors", J::Arr(harness_errors))
        .set("samples", J::Arr(samples));
    if let Err(e) = std::fs::write(&out, j.to_string_compact()) {
        eprintln!("cannot write {}: {e}", out.display());
        return 2;
    }
    0
}

// ------------------------------------------------------------------ batch

pub struct Merged {
    pub j: Vec<J>,
}

pub fn run_shards(a: &Args, verif_seed: u64, runs: u64, shards: u64, tier: &str, out_dir: &Path, extra: &[(&str, String)]) -> Result<Vec<J>, String> {
    let exe = std::env::current_exe().map_err(|e| e.to_string())?;
    std::fs::create_dir_all(out_dir).map_err(|e| e.to_string())?;
    let shards = shards.max(1).min(runs.max(1));
    let mut children = vec![];
    for k in 0..shards {
        let from = runs * k / shards;
        let to = runs * (k + 1) / shards;
        let out = out_dir.join(format!("shard-{k}.json"));
        let _ = std::fs::remove_file(&out);
        let mut cmd = Command::new(&exe);
        cmd.arg("shard")
            .arg("--seed").arg(verif_seed.to_string())
            .arg("--from").arg(from.to_string())
            .arg("--to").arg(to.to_string())
            .arg("--tier").arg(tier)
            .arg("--repo").arg(a.get("repo", "/repo"))
            .arg("--out").arg(&out)
            .arg("--replay-dir").arg(a.get("replay-dir", "replays"))
            .arg("--features").arg(a.get("features", "default"))
            .arg("--max-violations").arg(a.get("max-violations", "2"))
            .arg("--shrink-budget").arg(a.get("shrink-budget", "500"))
            .stdin(Stdio::null());
        if let Some(d) = a.map.get("dump-firsts") {
            cmd.arg("--dump-firsts").arg(d);
        }
        for (k, v) in extra {
            cmd.arg(format!("--{k}")).arg(v);
        }
        children.push((out, cmd.spawn().map_err(|e| e.to_string())?));
    }
    let mut results = vec![];
    for (out, mut c) in children {
        let st = c.wait().map_err(|e| e.to_string())?;
        if !st.success() {
            return Err(format!("shard exited with {st}"));
        }
        let t = std::fs::read_to_string(&out).map_err(|e| format!("{}: {e}", out.display()))?;
        results.push(J::parse(&t)?);
    }
    Ok(results)
}

fn sum(results: &[J], k: &str) -> i128 {
    results.iter().map(|r| r.get(k).and_then(|x| x.int()).unwrap_or(0)).sum()
}

fn sum_obj(results: &[J], k: &str) -> BTreeMap<String, i128> {
    let mut m = BTreeMap::new();
    for r in results {
        if let Some(J::Obj(o)) = r.get(k) {
            for (kk, v) in o {
                *m.entry(kk.clone()).or_insert(0) += v.int().unwrap_or(0);
            }
        }
    }
    m
}

fn union(results: &[J], k: &str) -> BTreeSet<String> {
    let mut s = BTreeSet::new();
    for r in results {
        for v in r.get(k).and_then(|x| x.arr()).unwrap_or(&vec![]) {
            if let Some(t) = v.str() {
                s.insert(t.to_string());
            }
        }
    }
    s
}

pub struct BatchOutcome {
    pub coverage: J,
    pub violations: Vec<J>,
    pub harness_errors: Vec<J>,
    pub canaries: usize,
    pub wall_s: f64,
    pub run_hashes: Vec<(u64, String)>,
}

pub fn batch(a: &Args, tier: &str, runs: u64, shards: u64, out_dir: &Path) -> Result<BatchOutcome, String> {
    let verif_seed = a.u64("seed", 1);
    let t0 = real_now_s();
    let results = run_shards(a, verif_seed, runs, shards, tier, out_dir, &[])?;
    let wall = real_now_s() - t0;

    let expansions = sum(&results, "expansions");
    let nontrivial = union(&results, "nontrivial_pairs");
    let hist = union(&results, "hist_prefixes");
    let inputs_seen = union(&results, "inputs_seen");
    let canaries = union(&results, "canaries");
    let fired = sum_obj(&results, "fired");
    let classes = sum_obj(&results, "outcome_classes");
    let roles = sum_obj(&results, "roles");
    let mut violations = vec![];
    let mut harness_errors = vec![];
    let mut samples = vec![];
    let mut run_hashes = vec![];
    for r in &results {
        violations.extend(r.get("violations").and_then(|x| x.arr()).cloned().unwrap_or_default());
        harness_errors.extend(r.get("harness_errors").and_then(|x| x.arr()).cloned().unwrap_or_default());
        if samples.len() < 2 {
            samples.extend(r.get("samples").and_then(|x| x.arr()).cloned().unwrap_or_default().into_iter().take(2 - samples.len()));
        }
        for rr in r.get("runs").and_then(|x| x.arr()).unwrap_or(&vec![]) {
            run_hashes.push((
                rr.get("run").and_then(|x| x.u64()).unwrap_or(0),
                rr.get("log_hash").and_then(|x| x.str()).unwrap_or("").to_string(),
            ));
        }
    }
    run_hashes.sort();
    let n_runs = run_hashes.len() as i128;
    let mut fired_j = J::obj();
    for k in KINDS.iter().chain(["history_nonempty"].iter()) {
        fired_j.put(k, J::Int(*fired.get(*k).unwrap_or(&0)));
    }
    let not_injected = J::Arr(
        [
            "message loss/duplication/reordering, partitions: not injected — educe has no network or peers",
            "disk errors (EIO, ENOSPC): not injected — educe does no I/O; the simulator does own a disk and injects wipes (fs_wipe) and torn files (fs_tear), which find nothing to act on on this tree (see file_opens_during_expansion and files_actually_torn_by_fs_tear)",
            "allocation failure: not injected — it aborts the process rather than changing a token stream",
        ]
        .iter()
        .map(|s| J::s(*s))
        .collect(),
    );
    let first = &results[0];
    let coverage = J::obj()
        .set("evaluations", J::Int(expansions))
        .set("distinct_nontrivial", J::i(nontrivial.len() as u64))
        .set(
            "rule",
            J::s("One evaluation = one expansion of a derive input by the real educe entry point inside a simulated process, compared byte-for-byte with the first outcome recorded for the same input text (the reference world W0: fresh process, fresh worker, entropy 0, empty history). Inputs come from the harvested corpus (tests, lib.rs docs, README at check time) and from the seeded generator. A case is the pair (input text, hasher key state of the worker just before the expansion); it is non-trivial when the outcome has >= 2 impl items, or is a diagnostic or a panic message (a single-impl output cannot be reordered). distinct_nontrivial counts distinct such pairs."),
        )
        .set("samples", J::Arr(samples))
        .set("simulated_runs", J::Int(n_runs))
        .set("runs_per_hour", J::Num(if wall > 0.0 { n_runs as f64 * 3600.0 / wall } else { 0.0 }))
        .set("expansions_per_hour", J::Num(if wall > 0.0 { expansions as f64 * 3600.0 / wall } else { 0.0 }))
        .set("shards", J::i(results.len() as u64))
        .set("ops_executed", J::Int(sum(&results, "ops")))
        .set("simulated_processes", J::Int(sum(&results, "worlds")))
        .set("simulated_clock_time_covered_s", J::Int(sum(&results, "sim_clock_span_s")))
        .set("clock_reads_during_expansion", J::Int(sum(&results, "clock_reads_worker")))
        .set("pid_reads_during_expansion", J::Int(sum(&results, "pid_reads_worker")))
        .set("env_reads_during_expansion", J::Int(sum(&results, "env_reads_worker")))
        .set("cwd_reads_during_expansion", J::Int(sum(&results, "cwd_reads_worker")))
        .set("file_opens_during_expansion", J::Int(sum(&results, "fs_calls_worker")))
        .set("cpu_count_reads_during_expansion", J::Int(sum(&results, "ncpu_reads_worker")))
        .set("files_actually_torn_by_fs_tear", J::Int(sum(&results, "files_torn")))
        .set("entropy_draws_by_workers", J::Int(sum(&results, "getrandom_worker")))
        .set("perturbations_fired", fired_j)
        .set("fault_kinds_not_applicable", not_injected)
        .set("outcome_classes", J::Obj(classes.into_iter().map(|(k, v)| (k, J::Int(v))).collect()))
        .set("input_roles", J::Obj(roles.into_iter().map(|(k, v)| (k, J::Int(v))).collect()))
        .set("distinct_inputs", J::i(inputs_seen.len() as u64))
        .set("distinct_history_prefixes", J::i(hist.len() as u64))
        .set("canary_orders_seen", J::i(canaries.len() as u64))
        .set("corpus_sites", first.get("corpus_sites").cloned().unwrap_or(J::Null))
        .set("corpus_distinct_inputs", first.get("corpus_distinct").cloned().unwrap_or(J::Null))
        .set("corpus_by_origin", first.get("corpus_by_origin").cloned().unwrap_or(J::Null));
    Ok(BatchOutcome { coverage, violations, harness_errors, canaries: canaries.len(), wall_s: wall, run_hashes })
}
