//! Minimisation of a violating scenario. A candidate is kept only if the *same input (by index)*
//! still yields two different outcomes when the candidate is executed from scratch in fresh child
//! processes. The result is a replay file that does not depend on the PRNG at all.

use quote::ToTokens;
use syn::punctuated::Punctuated;
use syn::{Data, DeriveInput, Fields, Meta, Token};

use crate::scenario::{execute, Obs, Op, Scenario, World};

pub struct Shrinker {
    /// real-time deadline (seconds, `seams::real_now_s`): shrinking stops, reporting does not
    pub deadline: f64,
    pub evals: usize,
    pub budget: usize,
    pub target: usize,
    pub log: Vec<String>,
}

pub struct Verdict {
    pub a: Obs,
    pub b: Obs,
}

impl Shrinker {
    /// does input `self.target` still get two different outcomes?
    pub fn fails(&mut self, sc: &Scenario) -> Option<Verdict> {
        if self.evals >= self.budget || crate::seams::real_now_s() > self.deadline {
            return None;
        }
        self.evals += 1;
        let ex = execute(sc).ok()?;
        let text = &sc.inputs[self.target];
        let mut first: Option<&Obs> = None;
        for o in &ex.obs {
            if &sc.inputs[o.input] != text {
                continue;
            }
            match first {
                None => first = Some(o),
                Some(f) => {
                    if f.outcome != o.outcome {
                        return Some(Verdict { a: f.clone(), b: o.clone() });
                    }
                },
            }
        }
        None
    }
}

fn truncate_world(w: &World, upto_op: usize, name: &str) -> World {
    World { name: name.to_string(), env: w.env.clone(), ops: w.ops[..=upto_op].to_vec() }
}

/// keep only ops that concern worker `w` (plus process-level perturbations)
fn only_worker(world: &World, w: u64) -> World {
    let ops = world
        .ops
        .iter()
        .filter(|op| match op {
            Op::Spawn { w: x, .. } | Op::Kill { w: x } | Op::Expand { w: x, .. } | Op::Frag { w: x, .. } => *x == w,
            Op::Clock { .. } | Op::Pid { .. } | Op::FsWipe | Op::FsTear { .. } => true,
        })
        .cloned()
        .collect();
    World { name: world.name.clone(), env: world.env.clone(), ops }
}

fn worker_of(op: &Op) -> Option<u64> {
    match op {
        Op::Spawn { w, .. } | Op::Kill { w } | Op::Expand { w, .. } | Op::Frag { w, .. } => Some(*w),
        _ => None,
    }
}

fn entropy_of(world: &World, w: u64) -> u64 {
    world
        .ops
        .iter()
        .rev()
        .find_map(|op| match op {
            Op::Spawn { w: x, entropy } if *x == w => Some(*entropy),
            _ => None,
        })
        .unwrap_or(0)
}

/// ops that may be removed from a world: everything except the last op (the observed expansion)
/// and the Spawn of the worker that performs it.
fn removable(world: &World) -> Vec<usize> {
    let last = world.ops.len() - 1;
    let keep_w = worker_of(&world.ops[last]);
    (0..last)
        .filter(|&i| match &world.ops[i] {
            Op::Spawn { w, .. } => Some(*w) != keep_w,
            _ => true,
        })
        .collect()
}

fn without(world: &World, drop: &[usize]) -> World {
    let ops = world.ops.iter().enumerate().filter(|(i, _)| !drop.contains(i)).map(|(_, o)| o.clone()).collect();
    World { name: world.name.clone(), env: world.env.clone(), ops }
}

/// a world is well-formed if every op on a worker happens between its Spawn and Kill
fn well_formed(world: &World) -> bool {
    let mut alive = std::collections::BTreeSet::new();
    for op in &world.ops {
        match op {
            Op::Spawn { w, .. } => {
                if !alive.insert(*w) {
                    return false;
                }
            },
            Op::Kill { w } => {
                if !alive.remove(w) {
                    return false;
                }
            },
            Op::Expand { w, .. } | Op::Frag { w, .. } => {
                if !alive.contains(w) {
                    return false;
                }
            },
            _ => {},
        }
    }
    true
}

pub struct Minimised {
    /// what the seams saw while the minimised scenario ran (diagnosis)
    pub probes: String,
    pub scenario: Scenario,
    pub target: usize,
    pub a: Obs,
    pub b: Obs,
    pub evals: usize,
    pub log: Vec<String>,
    pub confirmed_replays: usize,
}

/// `full`: the executed scenario; `a`/`b`: the disagreeing observations (world/op indices refer to `full`).
pub fn minimise(full: &Scenario, a: &Obs, b: &Obs, budget: usize) -> Option<Minimised> {
    let t_start = crate::seams::real_now_s();
    let mut sh = Shrinker { deadline: t_start + 90.0, evals: 0, budget, target: b.input, log: vec![] };
    // make sure both observations are about the same input index (same text may have two indices)
    let mut inputs = full.inputs.clone();
    if a.input != b.input {
        // identical text under two indices: nothing to do, indices are interchangeable
        inputs[a.input] = inputs[b.input].clone();
    }

    // ---- stage 1: two worlds (or one, when both observations are in the same process)
    let mut worlds = vec![];
    if a.world == b.world {
        worlds.push(truncate_world(&full.worlds[b.world], b.op, "B"));
    } else {
        worlds.push(truncate_world(&full.worlds[a.world], a.op, "A"));
        worlds.push(truncate_world(&full.worlds[b.world], b.op, "B"));
    }
    let mut cur = Scenario { inputs: inputs.clone(), worlds };
    let mut verdict = match sh.fails(&cur) {
        Some(v) => v,
        None => {
            // could not isolate (cross-process channel?): fall back to the sequential prefix
            let mut worlds = vec![];
            for (wi, w) in full.worlds.iter().enumerate() {
                if wi == b.world {
                    worlds.push(truncate_world(w, b.op, &w.name));
                } else if wi < b.world || wi == a.world {
                    worlds.push(w.clone());
                }
            }
            cur = Scenario { inputs: inputs.clone(), worlds };
            sh.log.push("two-world isolation did not reproduce; using all earlier worlds".into());
            sh.fails(&cur)?
        },
    };
    sh.log.push(format!("stage1: {} worlds, {} ops", cur.worlds.len(), cur.worlds.iter().map(|w| w.ops.len()).sum::<usize>()));

    // ---- stage 2: the canonical two-world core (pure entropy difference, empty history)
    {
        let bw = cur.worlds.last().unwrap();
        let wid = worker_of(bw.ops.last().unwrap()).unwrap_or(0);
        let e = entropy_of(bw, wid);
        let core = Scenario {
            inputs: cur.inputs.clone(),
            worlds: vec![
                World { name: "W0".into(), env: vec![], ops: vec![Op::Spawn { w: 0, entropy: 0 }, Op::Expand { w: 0, input: sh.target, fmt: 0 }] },
                World { name: "W1".into(), env: vec![], ops: vec![Op::Spawn { w: 0, entropy: e }, Op::Expand { w: 0, input: sh.target, fmt: 0 }] },
            ],
        };
        if let Some(v) = sh.fails(&core) {
            cur = core;
            verdict = v;
            // is it really the entropy? two fresh processes with *identical* seams must agree
            let mut same = cur.clone();
            same.worlds[1].ops[0] = Op::Spawn { w: 0, entropy: 0 };
            if let Some(v) = sh.fails(&same) {
                sh.log.push("stage2: two fresh single-worker processes with identical entropy, clock, pid, environment and layout disagree: the cause is state outside the processes (the scenario's disk) or an input the simulator does not own".into());
                cur = same;
                verdict = v;
                // does the second process only differ because the first one ran before it?
                let mut one = cur.clone();
                one.worlds.remove(0);
                one.worlds[0].ops = vec![
                    Op::Spawn { w: 0, entropy: 0 },
                    Op::Expand { w: 0, input: sh.target, fmt: 0 },
                    Op::Kill { w: 0 },
                    Op::Spawn { w: 1, entropy: 0 },
                    Op::Expand { w: 1, input: sh.target, fmt: 0 },
                ];
                if let Some(v) = sh.fails(&one) {
                    sh.log.push("stage2: also reproduces inside one process (first vs second expansion on fresh workers)".into());
                    cur = one;
                    verdict = v;
                }
            } else {
                sh.log.push(format!("stage2: entropy alone reproduces (entropy {e} vs 0); history dropped"));
                // try small entropy values so the replay is easy to read
                for small in 1..=16u64 {
                    let mut c = cur.clone();
                    c.worlds[1].ops[0] = Op::Spawn { w: 0, entropy: small };
                    if let Some(v) = sh.fails(&c) {
                        cur = c;
                        verdict = v;
                        break;
                    }
                }
            }
        } else {
            sh.log.push("stage2: entropy alone does not reproduce; keeping history".into());
            // ---- stage 3: history matters. restrict each world to the observing worker, then ddmin.
            for wi in 0..cur.worlds.len() {
                let w = &cur.worlds[wi];
                if let Some(wid) = worker_of(w.ops.last().unwrap()) {
                    let mut c = cur.clone();
                    c.worlds[wi] = only_worker(w, wid);
                    if c != cur {
                        if let Some(v) = sh.fails(&c) {
                            cur = c;
                            verdict = v;
                        }
                    }
                }
            }
            // same entropy as the reference for every worker?
            {
                let mut c = cur.clone();
                for w in c.worlds.iter_mut() {
                    for op in w.ops.iter_mut() {
                        if let Op::Spawn { entropy, .. } = op {
                            *entropy = 0;
                        }
                    }
                }
                if c != cur {
                    if let Some(v) = sh.fails(&c) {
                        sh.log.push("stage3: reproduces with identical entropy everywhere: not the hasher keys (history, environment or another seam)".into());
                        cur = c;
                        verdict = v;
                    }
                }
            }
            // env: all at once, else one variable at a time
            for wi in 0..cur.worlds.len() {
                if !cur.worlds[wi].env.is_empty() {
                    let mut c = cur.clone();
                    c.worlds[wi].env.clear();
                    if let Some(v) = sh.fails(&c) {
                        cur = c;
                        verdict = v;
                        continue;
                    }
                    let mut k = 0;
                    while k < cur.worlds[wi].env.len() {
                        let mut c = cur.clone();
                        c.worlds[wi].env.remove(k);
                        if let Some(v) = sh.fails(&c) {
                            cur = c;
                            verdict = v;
                        } else {
                            k += 1;
                        }
                    }
                    let names: Vec<&str> = cur.worlds[wi].env.iter().map(|(k, _)| k.as_str()).collect();
                    sh.log.push(format!("stage3: world {} needs environment {:?}", cur.worlds[wi].name, names));
                }
            }
            // presentation of the input: does it matter at all?
            {
                let mut c = cur.clone();
                for w in c.worlds.iter_mut() {
                    for op in w.ops.iter_mut() {
                        if let Op::Expand { fmt, .. } = op {
                            *fmt = 0;
                        }
                    }
                }
                if c != cur {
                    if let Some(v) = sh.fails(&c) {
                        cur = c;
                        verdict = v;
                    } else {
                        sh.log.push("stage3: needs a different presentation (blanks / comments) of the same tokens".into());
                    }
                }
            }
            // perturbation kinds, one kind at a time
            for kind in 0..4 {
                let mut c = cur.clone();
                for w in c.worlds.iter_mut() {
                    let last = w.ops.len() - 1;
                    let mut i = 0;
                    w.ops.retain(|op| {
                        let idx = i;
                        i += 1;
                        idx == last
                            || !match kind {
                                0 => matches!(op, Op::Clock { .. }),
                                1 => matches!(op, Op::Pid { .. }),
                                2 => matches!(op, Op::FsWipe | Op::FsTear { .. }),
                                _ => matches!(op, Op::Frag { .. }),
                            }
                    });
                }
                if c != cur {
                    if let Some(v) = sh.fails(&c) {
                        cur = c;
                        verdict = v;
                    }
                }
            }
            // ddmin per world
            for wi in 0..cur.worlds.len() {
                let mut chunk = removable(&cur.worlds[wi]).len() / 2;
                if chunk == 0 {
                    chunk = 1;
                }
                loop {
                    let mut progress = false;
                    let mut start = 0;
                    loop {
                        let rem = removable(&cur.worlds[wi]);
                        if start >= rem.len() || sh.evals >= sh.budget {
                            break;
                        }
                        let drop: Vec<usize> = rem[start..(start + chunk).min(rem.len())].to_vec();
                        let cand_w = without(&cur.worlds[wi], &drop);
                        if well_formed(&cand_w) {
                            let mut c = cur.clone();
                            c.worlds[wi] = cand_w;
                            if let Some(v) = sh.fails(&c) {
                                cur = c;
                                verdict = v;
                                progress = true;
                                continue; // same start: the list has shrunk
                            }
                        }
                        start += chunk;
                    }
                    if sh.evals >= sh.budget {
                        break;
                    }
                    if chunk == 1 {
                        if !progress {
                            break;
                        }
                    } else {
                        chunk = (chunk + 1) / 2;
                    }
                }
            }
            // drop a whole world if the remaining one disagrees with itself
            if cur.worlds.len() > 1 {
                for wi in 0..cur.worlds.len() {
                    let mut c = cur.clone();
                    c.worlds.remove(wi);
                    if let Some(v) = sh.fails(&c) {
                        cur = c;
                        verdict = v;
                        break;
                    }
                }
            }
        }
    }
    sh.log.push(format!(
        "schedule minimised: {} worlds, {} ops, {} evaluations so far",
        cur.worlds.len(),
        cur.worlds.iter().map(|w| w.ops.len()).sum::<usize>(),
        sh.evals
    ));

    // ---- stage 4: structural input shrinking (target and any remaining history inputs)
    let used: std::collections::BTreeSet<usize> = cur
        .worlds
        .iter()
        .flat_map(|w| w.ops.iter())
        .filter_map(|op| if let Op::Expand { input, .. } = op { Some(*input) } else { None })
        .collect();
    let mut order: Vec<usize> = used.iter().copied().filter(|i| *i != sh.target).collect();
    order.insert(0, sh.target);
    for idx in order {
        loop {
            let mut improved = false;
            let cur_size = tok_size(&cur.inputs[idx]);
            for cand in input_candidates(&cur.inputs[idx]) {
                if tok_size(&cand) >= cur_size {
                    continue;
                }
                let mut c = cur.clone();
                c.inputs[idx] = cand;
                if let Some(v) = sh.fails(&c) {
                    cur = c;
                    verdict = v;
                    improved = true;
                    break;
                }
                if sh.evals >= sh.budget {
                    break;
                }
            }
            if !improved || sh.evals >= sh.budget {
                break;
            }
        }
    }

    // ---- garbage-collect the input table
    let used: Vec<usize> = {
        let mut u: Vec<usize> = cur
            .worlds
            .iter()
            .flat_map(|w| w.ops.iter())
            .filter_map(|op| if let Op::Expand { input, .. } = op { Some(*input) } else { None })
            .collect();
        u.sort();
        u.dedup();
        u
    };
    let remap = |i: usize| used.iter().position(|x| *x == i).unwrap();
    let mut fin = Scenario { inputs: used.iter().map(|i| cur.inputs[*i].clone()).collect(), worlds: cur.worlds.clone() };
    for w in fin.worlds.iter_mut() {
        for op in w.ops.iter_mut() {
            if let Op::Expand { input, .. } = op {
                *input = remap(*input);
            }
        }
    }
    let target = remap(sh.target);
    sh.target = target;
    if crate::seams::real_now_s() > sh.deadline {
        sh.log.push("minimisation stopped at its 90 s time limit; the scenario may not be minimal".into());
    }
    // the minimised file must fail the same way, every time, from scratch
    sh.budget += 3;
    sh.deadline = crate::seams::real_now_s() + 120.0;
    let mut confirmed = 0;
    for _ in 0..3 {
        if let Some(v) = sh.fails(&fin) {
            verdict = v;
            confirmed += 1;
        }
    }
    if confirmed == 0 {
        return None;
    }
    let probes = match execute(&fin) {
        Ok(ex) => {
            let mut t = (0u64, 0u64, 0u64, 0u64, 0u64, 0u64);
            let mut names: Vec<String> = vec![];
            for s in &ex.stats {
                t.0 += s.clock_reads_worker;
                t.1 += s.pid_reads_worker;
                t.2 += s.env_reads_worker;
                t.3 += s.cwd_reads_worker;
                t.4 += s.fs_calls_worker;
                t.5 += s.ncpu_reads_worker;
                for n in &s.env_names {
                    if !names.contains(n) {
                        names.push(n.clone());
                    }
                }
            }
            format!(
                "during the minimised scenario workers made: clock reads {}, pid reads {}, env lookups {} {:?}, cwd reads {}, file opens {}, cpu-count reads {}",
                t.0, t.1, t.2, names, t.3, t.4, t.5
            )
        },
        Err(_) => String::new(),
    };
    Some(Minimised {
        probes, scenario: fin, target, a: verdict.a, b: verdict.b, evals: sh.evals, log: sh.log, confirmed_replays: confirmed })
}

// ------------------------------------------------------------------ input shrinking

/// size of an input = number of tokens (independent of how the text is spaced)
pub fn tok_size(text: &str) -> usize {
    fn count(ts: proc_macro2::TokenStream) -> usize {
        ts.into_iter()
            .map(|tt| match tt {
                proc_macro2::TokenTree::Group(g) => 1 + count(g.stream()),
                _ => 1,
            })
            .sum()
    }
    match text.parse::<proc_macro2::TokenStream>() {
        Ok(ts) => count(ts),
        Err(_) => text.len(),
    }
}

fn print(di: &DeriveInput) -> String {
    di.to_token_stream().to_string()
}

fn educe_metas(attr: &syn::Attribute) -> Option<Vec<Meta>> {
    if !attr.path().is_ident("educe") {
        return None;
    }
    if let Meta::List(list) = &attr.meta {
        list.parse_args_with(Punctuated::<Meta, Token![,]>::parse_terminated).ok().map(|p| p.into_iter().collect())
    } else {
        None
    }
}

/// all single-step reductions of an attribute vector
fn attr_reductions(attrs: &[syn::Attribute]) -> Vec<Vec<syn::Attribute>> {
    let mut out = vec![];
    for i in 0..attrs.len() {
        if attrs[i].path().is_ident("derive") {
            continue;
        }
        // drop the whole attribute
        let mut v = attrs.to_vec();
        v.remove(i);
        out.push(v);
        // drop one meta of an educe list
        if let Some(metas) = educe_metas(&attrs[i]) {
            if metas.len() > 1 {
                for k in 0..metas.len() {
                    let rest: Vec<&Meta> = metas.iter().enumerate().filter(|(j, _)| *j != k).map(|(_, m)| m).collect();
                    let new_attr: syn::Attribute = syn::parse_quote!(#[educe(#(#rest),*)]);
                    let mut v = attrs.to_vec();
                    v[i] = new_attr;
                    out.push(v);
                }
            }
            // simplify one meta: Trait(params..) -> Trait ; Trait(a, b) -> Trait(a)
            for k in 0..metas.len() {
                if let Meta::List(l) = &metas[k] {
                    let inner: Option<Vec<proc_macro2::TokenStream>> = l
                        .parse_args_with(Punctuated::<proc_macro2::TokenStream, Token![,]>::parse_terminated)
                        .ok()
                        .map(|p| p.into_iter().collect());
                    let path = &l.path;
                    let mut repl: Vec<Meta> = vec![syn::parse_quote!(#path)];
                    if let Some(inner) = split_top_level_commas(&l.tokens).or(inner) {
                        if inner.len() > 1 {
                            for d in 0..inner.len() {
                                let rest: Vec<&proc_macro2::TokenStream> =
                                    inner.iter().enumerate().filter(|(j, _)| *j != d).map(|(_, m)| m).collect();
                                if let Ok(m) = syn::parse2::<Meta>(quote::quote!(#path(#(#rest),*))) {
                                    repl.push(m);
                                }
                            }
                        }
                    }
                    for r in repl {
                        let mut ms = metas.clone();
                        ms[k] = r;
                        let new_attr: syn::Attribute = syn::parse_quote!(#[educe(#(#ms),*)]);
                        let mut v = attrs.to_vec();
                        v[i] = new_attr;
                        out.push(v);
                    }
                }
            }
        }
    }
    out
}

fn split_top_level_commas(ts: &proc_macro2::TokenStream) -> Option<Vec<proc_macro2::TokenStream>> {
    let mut parts: Vec<proc_macro2::TokenStream> = vec![];
    let mut cur: Vec<proc_macro2::TokenTree> = vec![];
    let mut angle = 0i32;
    for tt in ts.clone() {
        match &tt {
            proc_macro2::TokenTree::Punct(p) if p.as_char() == '<' => {
                angle += 1;
                cur.push(tt);
            },
            proc_macro2::TokenTree::Punct(p) if p.as_char() == '>' => {
                angle -= 1;
                cur.push(tt);
            },
            proc_macro2::TokenTree::Punct(p) if p.as_char() == ',' && angle <= 0 => {
                parts.push(cur.drain(..).collect());
            },
            _ => cur.push(tt),
        }
    }
    if !cur.is_empty() {
        parts.push(cur.into_iter().collect());
    }
    Some(parts)
}

/// index ranges to drop at once: halves, quarters, eighths (big inputs shrink by chunks first)
fn chunks(n: usize) -> Vec<(usize, usize)> {
    let mut v = vec![];
    let mut parts = 2;
    while parts <= 8 && n / parts >= 2 {
        let size = n / parts;
        for k in 0..parts {
            let a = k * size;
            let b = if k + 1 == parts { n } else { a + size };
            v.push((a, b));
        }
        parts *= 2;
    }
    v
}

/// for very long lists only a sample of the single-element reductions is generated (memory)
fn singles(n: usize) -> Vec<usize> {
    if n <= 24 {
        (0..n).collect()
    } else {
        let mut v: Vec<usize> = (0..6).collect();
        v.extend(n - 6..n);
        v
    }
}

fn fields_reductions(fields: &Fields) -> Vec<Fields> {
    let mut out = vec![];
    match fields {
        Fields::Named(n) => {
            for (a, b) in chunks(n.named.len()) {
                let mut m = n.clone();
                m.named = n.named.iter().enumerate().filter(|(j, _)| *j < a || *j >= b).map(|(_, f)| f.clone()).collect();
                out.push(Fields::Named(m));
            }
            for i in singles(n.named.len()) {
                let mut m = n.clone();
                m.named = n.named.iter().enumerate().filter(|(j, _)| *j != i).map(|(_, f)| f.clone()).collect();
                out.push(Fields::Named(m));
                for av in attr_reductions(&n.named[i].attrs) {
                    let mut m = n.clone();
                    m.named[i].attrs = av;
                    out.push(Fields::Named(m));
                }
                let mut m = n.clone();
                m.named[i].ty = syn::parse_quote!(u8);
                out.push(Fields::Named(m));
            }
        },
        Fields::Unnamed(u) => {
            for (a, b) in chunks(u.unnamed.len()) {
                let mut m = u.clone();
                m.unnamed = u.unnamed.iter().enumerate().filter(|(j, _)| *j < a || *j >= b).map(|(_, f)| f.clone()).collect();
                out.push(Fields::Unnamed(m));
            }
            for i in singles(u.unnamed.len()) {
                let mut m = u.clone();
                m.unnamed = u.unnamed.iter().enumerate().filter(|(j, _)| *j != i).map(|(_, f)| f.clone()).collect();
                out.push(Fields::Unnamed(m));
                for av in attr_reductions(&u.unnamed[i].attrs) {
                    let mut m = u.clone();
                    m.unnamed[i].attrs = av;
                    out.push(Fields::Unnamed(m));
                }
                let mut m = u.clone();
                m.unnamed[i].ty = syn::parse_quote!(u8);
                out.push(Fields::Unnamed(m));
            }
        },
        Fields::Unit => {},
    }
    out
}

/// Every single-step structural reduction of a derive input, as source text (shorter first is not
/// guaranteed; the caller filters by length).
pub fn input_candidates(text: &str) -> Vec<String> {
    let Ok(ts) = text.parse::<proc_macro2::TokenStream>() else { return vec![] };
    let Ok(di) = syn::parse2::<DeriveInput>(ts) else { return vec![] };
    let mut out: Vec<String> = vec![];
    for av in attr_reductions(&di.attrs) {
        let mut d = di.clone();
        d.attrs = av;
        out.push(print(&d));
    }
    // generics
    if di.generics.where_clause.is_some() {
        let mut d = di.clone();
        d.generics.where_clause = None;
        out.push(print(&d));
    }
    for i in 0..di.generics.params.len() {
        let mut d = di.clone();
        d.generics.params = di.generics.params.iter().enumerate().filter(|(j, _)| *j != i).map(|(_, p)| p.clone()).collect();
        out.push(print(&d));
    }
    if matches!(di.vis, syn::Visibility::Public(_) | syn::Visibility::Restricted(_)) {
        let mut d = di.clone();
        d.vis = syn::Visibility::Inherited;
        out.push(print(&d));
    }
    match &di.data {
        Data::Struct(s) => {
            for f in fields_reductions(&s.fields) {
                let mut d = di.clone();
                if let Data::Struct(ds) = &mut d.data {
                    ds.fields = f;
                }
                out.push(print(&d));
            }
        },
        Data::Enum(e) => {
            for (a, b) in chunks(e.variants.len()) {
                let mut d = di.clone();
                if let Data::Enum(de) = &mut d.data {
                    de.variants = e.variants.iter().enumerate().filter(|(j, _)| *j < a || *j >= b).map(|(_, v)| v.clone()).collect();
                }
                out.push(print(&d));
            }
            for i in singles(e.variants.len()) {
                let mut d = di.clone();
                if let Data::Enum(de) = &mut d.data {
                    de.variants = e.variants.iter().enumerate().filter(|(j, _)| *j != i).map(|(_, v)| v.clone()).collect();
                }
                out.push(print(&d));
                for av in attr_reductions(&e.variants[i].attrs) {
                    let mut d = di.clone();
                    if let Data::Enum(de) = &mut d.data {
                        de.variants[i].attrs = av;
                    }
                    out.push(print(&d));
                }
                for f in fields_reductions(&e.variants[i].fields) {
                    let mut d = di.clone();
                    if let Data::Enum(de) = &mut d.data {
                        de.variants[i].fields = f;
                    }
                    out.push(print(&d));
                }
                if e.variants[i].discriminant.is_some() {
                    let mut d = di.clone();
                    if let Data::Enum(de) = &mut d.data {
                        de.variants[i].discriminant = None;
                    }
                    out.push(print(&d));
                }
            }
        },
        Data::Union(u) => {
            for f in fields_reductions(&Fields::Named(u.fields.clone())) {
                let mut d = di.clone();
                if let (Data::Union(du), Fields::Named(n)) = (&mut d.data, f) {
                    du.fields = n;
                }
                out.push(print(&d));
            }
        },
    }
    out.sort_by_key(|s| tok_size(s));
    out.dedup();
    out
}
