//! Scheduler-side handle to one simulated process (a `educe-sim host` child).
//!
//! Reads are plain blocking reads; a single watchdog thread (real clock) kills a child whose
//! current request has been outstanding for too long, which turns the blocked read into EOF.
//! A timeout is a harness error (exit 2), never a verdict.

use std::collections::BTreeSet;
use std::io::{BufRead, BufReader, Read, Write};
use std::process::{Child, ChildStdin, ChildStdout, Command, Stdio};
use std::sync::atomic::{AtomicBool, AtomicU64, Ordering};
use std::sync::{Arc, Mutex, OnceLock};

use crate::seams::real_now_s;

#[derive(Debug)]
pub enum HostError {
    Died(String),
    Timeout,
    Protocol(String),
}

impl std::fmt::Display for HostError {
    fn fmt(&self, f: &mut std::fmt::Formatter<'_>) -> std::fmt::Result {
        match self {
            HostError::Died(s) => write!(f, "host process died: {s}"),
            HostError::Timeout => write!(f, "host process timed out"),
            HostError::Protocol(s) => write!(f, "protocol error: {s}"),
        }
    }
}

pub type HResult<T> = Result<T, HostError>;

extern "C" {
    fn kill(pid: i32, sig: i32) -> i32;
    fn personality(persona: u64) -> i32;
}

const ADDR_NO_RANDOMIZE: u64 = 0x0040000;

struct Watched {
    pid: u32,
    /// real-time deadline in milliseconds; 0 = no request outstanding
    deadline_ms: AtomicU64,
    tripped: AtomicBool,
}

fn registry() -> &'static Mutex<Vec<Arc<Watched>>> {
    static REG: OnceLock<Mutex<Vec<Arc<Watched>>>> = OnceLock::new();
    REG.get_or_init(|| {
        std::thread::Builder::new()
            .name("watchdog".into())
            .spawn(|| loop {
                std::thread::sleep(std::time::Duration::from_millis(250));
                let now = (real_now_s() * 1000.0) as u64;
                let reg = registry().lock().unwrap();
                for w in reg.iter() {
                    let d = w.deadline_ms.load(Ordering::SeqCst);
                    if d != 0 && now > d && !w.tripped.swap(true, Ordering::SeqCst) {
                        unsafe {
                            kill(w.pid as i32, 9);
                        }
                    }
                }
            })
            .expect("watchdog");
        Mutex::new(Vec::new())
    })
}

pub struct Proc {
    child: Child,
    stdin: ChildStdin,
    stdout: BufReader<ChildStdout>,
    registered: BTreeSet<u64>,
    watched: Arc<Watched>,
    pub timeout_s: f64,
}

#[derive(Clone, Debug, Default)]
pub struct HostStats {
    pub getrandom_worker: u64,
    pub getrandom_other: u64,
    pub clock_reads_worker: u64,
    pub pid_reads_worker: u64,
    pub env_reads_worker: u64,
    pub cwd_reads_worker: u64,
    pub fs_calls_worker: u64,
    pub ncpu_reads_worker: u64,
    pub env_names: Vec<String>,
}

impl Proc {
    /// `sandbox`: directory that is this scenario's disk. The process runs with its cwd inside it,
    /// TMPDIR/HOME/OUT_DIR/... point into it, and `$SANDBOX` in env values is replaced by its path.
    pub fn start(env: &[(String, String)], sandbox: Option<&std::path::Path>) -> HResult<Proc> {
        let mut exe = std::env::current_exe().map_err(|e| HostError::Died(e.to_string()))?;
        // the path of the executable and its command line are part of a process' environment too:
        // VERIF_EXE_NAME = run the host through a hard link of that name inside the sandbox,
        // VERIF_ARGV     = extra (ignored) command-line arguments
        let mut extra_args: Vec<String> = vec![];
        for (k, v) in env {
            if k == "VERIF_ARGV" {
                extra_args = v.split(' ').filter(|s| !s.is_empty()).map(|s| s.to_string()).collect();
            }
            if k == "VERIF_EXE_NAME" {
                if let Some(sb) = sandbox {
                    let dir = sb.join("bin");
                    let _ = std::fs::create_dir_all(&dir);
                    let link = dir.join(v);
                    if link.exists() || std::fs::hard_link(&exe, &link).is_ok() {
                        exe = link;
                    }
                }
            }
        }
        let mut cmd = Command::new(exe);
        cmd.arg("host").args(&extra_args).stdin(Stdio::piped()).stdout(Stdio::piped()).stderr(Stdio::inherit());
        if let Some(sb) = sandbox {
            let sbs = sb.display().to_string();
            let mut cwd = sb.join("cwd");
            cmd.env("TMPDIR", sb.join("tmp")).env("HOME", sb.join("home"));
            for (k, v) in env {
                let v = v.replace("$SANDBOX", &sbs);
                if k == "VERIF_CWD" {
                    cwd = sb.join(&v);
                    continue;
                }
                cmd.env(k, v);
            }
            for d in [sb.join("tmp"), sb.join("home"), cwd.clone()] {
                let _ = std::fs::create_dir_all(d);
            }
            cmd.current_dir(cwd);
        } else {
            for (k, v) in env {
                cmd.env(k, v);
            }
        }
        // The kernel's address-space randomisation is nondeterminism the simulator does not own:
        // switch it off for the simulated process and let the scheduler choose the layout instead
        // (VERIF_SLIDE_* in `env`, heap pre-fragmentation ops).
        unsafe {
            use std::os::unix::process::CommandExt;
            cmd.pre_exec(|| {
                let cur = personality(0xffff_ffff);
                if cur >= 0 {
                    personality(cur as u64 | ADDR_NO_RANDOMIZE);
                }
                Ok(())
            });
        }
        let mut child = cmd.spawn().map_err(|e| HostError::Died(e.to_string()))?;
        let stdin = child.stdin.take().unwrap();
        let stdout = BufReader::new(child.stdout.take().unwrap());
        let watched = Arc::new(Watched {
            pid: child.id(),
            deadline_ms: AtomicU64::new(0),
            tripped: AtomicBool::new(false),
        });
        registry().lock().unwrap().push(watched.clone());
        Ok(Proc { child, stdin, stdout, registered: BTreeSet::new(), watched, timeout_s: 60.0 })
    }

    fn arm(&self) {
        let d = ((real_now_s() + self.timeout_s) * 1000.0) as u64;
        self.watched.deadline_ms.store(d, Ordering::SeqCst);
    }

    fn disarm(&self) {
        self.watched.deadline_ms.store(0, Ordering::SeqCst);
    }

    fn dead(&mut self, what: &str) -> HostError {
        self.disarm();
        if self.watched.tripped.load(Ordering::SeqCst) {
            return HostError::Timeout;
        }
        let st = self.child.wait().map(|s| s.to_string()).unwrap_or_default();
        HostError::Died(format!("{what}; {st}"))
    }

    fn send(&mut self, s: &str) -> HResult<()> {
        self.arm();
        if let Err(e) = self.stdin.write_all(s.as_bytes()).and_then(|_| self.stdin.flush()) {
            return Err(self.dead(&format!("write: {e}")));
        }
        Ok(())
    }

    fn line(&mut self) -> HResult<String> {
        let mut l = String::new();
        match self.stdout.read_line(&mut l) {
            Ok(0) => Err(self.dead("eof")),
            Err(e) => Err(self.dead(&format!("read: {e}"))),
            Ok(_) => {
                let l = l.trim_end().to_string();
                if let Some(e) = l.strip_prefix("err ") {
                    self.disarm();
                    return Err(HostError::Protocol(e.to_string()));
                }
                Ok(l)
            },
        }
    }

    fn expect_ok(&mut self) -> HResult<String> {
        let l = self.line()?;
        self.disarm();
        if l == "ok" || l.starts_with("ok ") {
            Ok(l)
        } else {
            Err(HostError::Protocol(l))
        }
    }

    pub fn register(&mut self, id: u64, text: &str) -> HResult<()> {
        if self.registered.contains(&id) {
            return Ok(());
        }
        self.send(&format!("I {id} {}\n{text}\n", text.len()))?;
        self.expect_ok()?;
        self.registered.insert(id);
        Ok(())
    }

    /// returns (key fingerprint, canary order)
    pub fn spawn_worker(&mut self, w: u64, entropy: u64) -> HResult<(u64, String)> {
        self.send(&format!("S {w} {entropy}\n"))?;
        let l = self.expect_ok()?;
        let mut it = l.split(' ');
        it.next();
        let fp = u64::from_str_radix(it.next().unwrap_or("0"), 16).unwrap_or(0);
        let cn = it.next().unwrap_or("").to_string();
        Ok((fp, cn))
    }

    pub fn kill_worker(&mut self, w: u64) -> HResult<()> {
        self.send(&format!("K {w}\n"))?;
        self.expect_ok().map(|_| ())
    }

    /// returns (key fingerprint just before the expansion, outcome text)
    pub fn expand(&mut self, w: u64, id: u64, fmt: u64) -> HResult<(u64, String)> {
        self.send(&format!("X {w} {id} {fmt}\n"))?;
        let l = self.line()?;
        let parts: Vec<&str> = l.split(' ').collect();
        if parts.len() != 3 || parts[0] != "R" {
            self.disarm();
            return Err(HostError::Protocol(l));
        }
        let fp = u64::from_str_radix(parts[1], 16).unwrap_or(0);
        let n: usize = parts[2].parse().unwrap_or(0);
        let mut buf = vec![0u8; n + 1];
        if let Err(e) = self.stdout.read_exact(&mut buf) {
            return Err(self.dead(&format!("read payload: {e}")));
        }
        self.disarm();
        buf.pop();
        Ok((fp, String::from_utf8_lossy(&buf).into_owned()))
    }

    pub fn set_clock(&mut self, s: i64, ns: i64) -> HResult<()> {
        self.send(&format!("C {s} {ns}\n"))?;
        self.expect_ok().map(|_| ())
    }

    pub fn set_pid(&mut self, pid: i64) -> HResult<()> {
        self.send(&format!("P {pid}\n"))?;
        self.expect_ok().map(|_| ())
    }

    pub fn frag(&mut self, w: u64, seed: u64, n: u64) -> HResult<u64> {
        self.send(&format!("F {w} {seed} {n}\n"))?;
        let l = self.expect_ok()?;
        Ok(l.split(' ').nth(1).and_then(|x| x.parse().ok()).unwrap_or(0))
    }

    pub fn probe(&mut self, w: u64) -> HResult<String> {
        self.send(&format!("Y {w}\n"))?;
        self.expect_ok()
    }

    pub fn stats(&mut self) -> HResult<HostStats> {
        self.send("T\n")?;
        let l = self.line()?;
        self.disarm();
        let p: Vec<u64> = l.split(' ').skip(1).filter_map(|x| x.parse().ok()).collect();
        if p.len() != 8 {
            return Err(HostError::Protocol(l));
        }
        Ok(HostStats {
            getrandom_worker: p[0],
            getrandom_other: p[1],
            clock_reads_worker: p[2],
            pid_reads_worker: p[3],
            env_reads_worker: p[4],
            cwd_reads_worker: p[5],
            fs_calls_worker: p[6],
            ncpu_reads_worker: p[7],
            env_names: {
                self.send("N\n")?;
                let l = self.expect_ok()?;
                l.split(' ').skip(1).filter(|s| !s.is_empty()).map(|s| s.to_string()).collect()
            },
        })
    }

    pub fn quit(mut self) {
        let _ = self.send("Q\n");
        self.disarm();
        let _ = self.child.wait();
    }
}

impl Drop for Proc {
    fn drop(&mut self) {
        self.disarm();
        let _ = self.child.kill();
        let _ = self.child.wait();
        let mut reg = registry().lock().unwrap();
        reg.retain(|w| !Arc::ptr_eq(w, &self.watched));
    }
}
