//! Seams: the libc symbols through which environment nondeterminism reaches std (and would reach
//! educe). The simulator binary defines them itself, so the static link resolves std's references
//! to these definitions instead of libc's.
//!
//! * `getrandom`      -> source of `RandomState` keys (every `HashMap::new()`)
//! * `clock_gettime`  -> `Instant::now()`, `SystemTime::now()`
//! * `getpid`         -> `std::process::id()`
//!
//! Worker threads (the ones that run educe) see simulated values; every other thread (host main
//! loop, scheduler, watchdogs) sees a fixed entropy and the *real* clock / pid through raw syscalls,
//! so the harness' own timeouts keep working.

use std::cell::Cell;
use std::sync::atomic::{AtomicI64, AtomicU64, Ordering};

use crate::prng::mix64;

thread_local! {
    /// true on threads that run educe expansions. `const` init, no destructor: safe to read from
    /// inside a libc-level override at any point of a thread's life.
    pub static IS_WORKER: Cell<bool> = const { Cell::new(false) };
}

/// Entropy seed handed to the next `getrandom` call made by a worker thread.
pub static WORKER_ENTROPY: AtomicU64 = AtomicU64::new(0);
/// Simulated clock (seconds, nanoseconds) seen by workers.
pub static SIM_CLOCK_S: AtomicI64 = AtomicI64::new(0);
pub static SIM_CLOCK_NS: AtomicI64 = AtomicI64::new(0);
/// Simulated pid seen by workers.
pub static SIM_PID: AtomicI64 = AtomicI64::new(4242);

// reach probes
pub static GETRANDOM_CALLS_WORKER: AtomicU64 = AtomicU64::new(0);
pub static GETRANDOM_CALLS_OTHER: AtomicU64 = AtomicU64::new(0);
pub static CLOCK_READS_WORKER: AtomicU64 = AtomicU64::new(0);
pub static PID_READS_WORKER: AtomicU64 = AtomicU64::new(0);

#[repr(C)]
pub struct Timespec {
    pub tv_sec: i64,
    pub tv_nsec: i64,
}

extern "C" {
    fn syscall(num: i64, ...) -> i64;
}

const SYS_GETPID: i64 = 39;
const SYS_CLOCK_GETTIME: i64 = 228;

fn is_worker() -> bool {
    IS_WORKER.try_with(|c| c.get()).unwrap_or(false)
}

/// Deterministic fill: byte i of the answer is a function of (entropy seed, i) only.
fn fill(buf: *mut u8, len: usize, seed: u64) {
    let mut i = 0usize;
    let mut ctr = 0u64;
    while i < len {
        let word = mix64(seed ^ mix64(ctr.wrapping_add(0x9E37_79B9_7F4A_7C15)));
        for b in word.to_le_bytes() {
            if i >= len {
                break;
            }
            unsafe { *buf.add(i) = b };
            i += 1;
        }
        ctr += 1;
    }
}

#[no_mangle]
pub unsafe extern "C" fn getrandom(buf: *mut u8, len: usize, _flags: u32) -> isize {
    if is_worker() {
        GETRANDOM_CALLS_WORKER.fetch_add(1, Ordering::SeqCst);
        fill(buf, len, WORKER_ENTROPY.load(Ordering::SeqCst));
    } else {
        GETRANDOM_CALLS_OTHER.fetch_add(1, Ordering::SeqCst);
        fill(buf, len, 0x0DDB_1A5E_5BAD_5EED);
    }
    len as isize
}

#[no_mangle]
pub unsafe extern "C" fn clock_gettime(clk: i32, ts: *mut Timespec) -> i32 {
    if is_worker() {
        CLOCK_READS_WORKER.fetch_add(1, Ordering::SeqCst);
        if !ts.is_null() {
            (*ts).tv_sec = SIM_CLOCK_S.load(Ordering::SeqCst);
            (*ts).tv_nsec = SIM_CLOCK_NS.load(Ordering::SeqCst);
        }
        0
    } else {
        syscall(SYS_CLOCK_GETTIME, clk as i64, ts) as i32
    }
}

#[no_mangle]
pub unsafe extern "C" fn getpid() -> i32 {
    if is_worker() {
        PID_READS_WORKER.fetch_add(1, Ordering::SeqCst);
        SIM_PID.load(Ordering::SeqCst) as i32
    } else {
        syscall(SYS_GETPID) as i32
    }
}

/// Real monotonic time in seconds (raw syscall; never the simulated clock).
pub fn real_now_s() -> f64 {
    let mut ts = Timespec { tv_sec: 0, tv_nsec: 0 };
    unsafe {
        syscall(SYS_CLOCK_GETTIME, 1i64, &mut ts as *mut Timespec);
    }
    ts.tv_sec as f64 + ts.tv_nsec as f64 * 1e-9
}
