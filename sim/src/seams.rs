//! Seams: the libc symbols through which environment nondeterminism reaches std (and would reach
//! educe). The simulator binary defines them itself, so the static link resolves std's references
//! to these definitions instead of libc's.
//!
//! * `getrandom`      -> source of `RandomState` keys (every `HashMap::new()`)
//! * `clock_gettime`  -> `Instant::now()`, `SystemTime::now()`
//! * `getpid`         -> `std::process::id()`
//!
//! Worker threads (the ones that run educe) see simulated values; every other thread (host main
//! loop, scheduler, watchdogs) sees a fixed entropy and the *real* clock / pid through raw syscalls,
//! so the harness' own timeouts keep working.

use std::cell::Cell;
use std::sync::atomic::{AtomicI64, AtomicU64, Ordering};

use crate::prng::mix64;

thread_local! {
    /// true on threads that run educe expansions. `const` init, no destructor: safe to read from
    /// inside a libc-level override at any point of a thread's life.
    pub static IS_WORKER: Cell<bool> = const { Cell::new(false) };
}

/// Entropy seed handed to the next `getrandom` call made by a worker thread.
pub static WORKER_ENTROPY: AtomicU64 = AtomicU64::new(0);
/// Simulated clock (seconds, nanoseconds) seen by workers.
pub static SIM_CLOCK_S: AtomicI64 = AtomicI64::new(1_700_000_000);
pub static SIM_CLOCK_NS: AtomicI64 = AtomicI64::new(0);
/// How far the simulated clock moves on every read by a worker (0 = frozen). Time passes *during*
/// an expansion in some worlds and stands still in others, so code that measures elapsed time sees
/// different durations.
pub static SIM_CLOCK_STEP_NS: AtomicI64 = AtomicI64::new(0);
/// What `isatty` answers to workers: 0 = real, 1 = no, 2 = yes.
pub static SIM_ISATTY: AtomicU64 = AtomicU64::new(0);
pub static TTY_READS_WORKER: AtomicU64 = AtomicU64::new(0);
/// Simulated pid seen by workers.
pub static SIM_PID: AtomicI64 = AtomicI64::new(4242);

/// Per-process seed for simulated environment lookups (0 = pass-through only).
pub static ENV_SEED: AtomicU64 = AtomicU64::new(0);
/// Simulated number of CPUs seen by workers (0 = real).
pub static SIM_NCPU: AtomicU64 = AtomicU64::new(0);

/// names of the environment variables workers asked for (diagnosis; first 64 distinct names)
pub static ENV_NAMES: std::sync::Mutex<Vec<String>> = std::sync::Mutex::new(Vec::new());

// reach probes
pub static ENV_READS_WORKER: AtomicU64 = AtomicU64::new(0);
pub static CWD_READS_WORKER: AtomicU64 = AtomicU64::new(0);
pub static FS_CALLS_WORKER: AtomicU64 = AtomicU64::new(0);
pub static NCPU_READS_WORKER: AtomicU64 = AtomicU64::new(0);
pub static GETRANDOM_CALLS_WORKER: AtomicU64 = AtomicU64::new(0);
pub static GETRANDOM_CALLS_OTHER: AtomicU64 = AtomicU64::new(0);
pub static CLOCK_READS_WORKER: AtomicU64 = AtomicU64::new(0);
pub static PID_READS_WORKER: AtomicU64 = AtomicU64::new(0);

#[repr(C)]
pub struct Timespec {
    pub tv_sec: i64,
    pub tv_nsec: i64,
}

extern "C" {
    fn syscall(num: i64, ...) -> i64;
}

const SYS_GETPID: i64 = 39;
const SYS_GETCWD: i64 = 79;
const SYS_OPENAT: i64 = 257;
const SYS_SCHED_GETAFFINITY: i64 = 204;
const AT_FDCWD: i64 = -100;

extern "C" {
    static environ: *const *const u8;
}

unsafe fn cstr_len(p: *const u8) -> usize {
    let mut n = 0;
    while *p.add(n) != 0 {
        n += 1;
    }
    n
}

unsafe fn real_getenv(name: *const u8, nlen: usize) -> *mut u8 {
    if environ.is_null() {
        return std::ptr::null_mut();
    }
    let mut e = environ;
    while !(*e).is_null() {
        let entry = *e;
        let mut i = 0;
        while i < nlen && *entry.add(i) == *name.add(i) {
            i += 1;
        }
        if i == nlen && *entry.add(i) == b'=' {
            return entry.add(i + 1) as *mut u8;
        }
        e = e.add(1);
    }
    std::ptr::null_mut()
}
const SYS_CLOCK_GETTIME: i64 = 228;

fn is_worker() -> bool {
    IS_WORKER.try_with(|c| c.get()).unwrap_or(false)
}

/// Deterministic fill: byte i of the answer is a function of (entropy seed, i) only.
fn fill(buf: *mut u8, len: usize, seed: u64) {
    let mut i = 0usize;
    let mut ctr = 0u64;
    while i < len {
        let word = mix64(seed ^ mix64(ctr.wrapping_add(0x9E37_79B9_7F4A_7C15)));
        for b in word.to_le_bytes() {
            if i >= len {
                break;
            }
            unsafe { *buf.add(i) = b };
            i += 1;
        }
        ctr += 1;
    }
}

#[no_mangle]
pub unsafe extern "C" fn getrandom(buf: *mut u8, len: usize, _flags: u32) -> isize {
    if is_worker() {
        GETRANDOM_CALLS_WORKER.fetch_add(1, Ordering::SeqCst);
        fill(buf, len, WORKER_ENTROPY.load(Ordering::SeqCst));
    } else {
        GETRANDOM_CALLS_OTHER.fetch_add(1, Ordering::SeqCst);
        fill(buf, len, 0x0DDB_1A5E_5BAD_5EED);
    }
    len as isize
}

#[no_mangle]
pub unsafe extern "C" fn clock_gettime(clk: i32, ts: *mut Timespec) -> i32 {
    if is_worker() {
        CLOCK_READS_WORKER.fetch_add(1, Ordering::SeqCst);
        if !ts.is_null() {
            (*ts).tv_sec = SIM_CLOCK_S.load(Ordering::SeqCst);
            (*ts).tv_nsec = SIM_CLOCK_NS.load(Ordering::SeqCst);
        }
        // time passes between two reads (only one worker runs at a time: no race)
        let step = SIM_CLOCK_STEP_NS.load(Ordering::SeqCst);
        if step != 0 {
            let ns = SIM_CLOCK_NS.load(Ordering::SeqCst) + step;
            SIM_CLOCK_S.fetch_add(ns.div_euclid(1_000_000_000), Ordering::SeqCst);
            SIM_CLOCK_NS.store(ns.rem_euclid(1_000_000_000), Ordering::SeqCst);
        }
        0
    } else {
        syscall(SYS_CLOCK_GETTIME, clk as i64, ts) as i32
    }
}

#[no_mangle]
pub unsafe extern "C" fn getpid() -> i32 {
    if is_worker() {
        PID_READS_WORKER.fetch_add(1, Ordering::SeqCst);
        SIM_PID.load(Ordering::SeqCst) as i32
    } else {
        syscall(SYS_GETPID) as i32
    }
}

/// Environment lookups (`std::env::var`). Workers: counted; the real environment of the simulated
/// process (which the scheduler chose) answers first; a name that is NOT set may, per process, be
/// reported as set to a simulated value ("buggify": a knob nobody thought of is on in some
/// worlds), so that dependence on *any* variable shows up as a difference between worlds.
#[no_mangle]
pub unsafe extern "C" fn getenv(name: *const u8) -> *mut u8 {
    if name.is_null() {
        return std::ptr::null_mut();
    }
    let nlen = cstr_len(name);
    let real = real_getenv(name, nlen);
    if !is_worker() {
        return real;
    }
    let bytes = std::slice::from_raw_parts(name, nlen);
    if bytes.starts_with(b"RUST_") || bytes.starts_with(b"VERIF_") {
        return real;
    }
    ENV_READS_WORKER.fetch_add(1, Ordering::SeqCst);
    if let Ok(mut names) = ENV_NAMES.try_lock() {
        let n = String::from_utf8_lossy(bytes).into_owned();
        if names.len() < 64 && !names.contains(&n) {
            names.push(n);
        }
    }
    let seed = ENV_SEED.load(Ordering::SeqCst);
    if !real.is_null() || seed == 0 {
        return real;
    }
    let mut h: u64 = 0xcbf2_9ce4_8422_2325;
    for b in bytes {
        h ^= *b as u64;
        h = h.wrapping_mul(0x0000_0100_0000_01b3);
    }
    let h = mix64(seed ^ h);
    if h % 2 == 0 {
        return real; // unset in this world
    }
    let v: &[&str] = &["1", "0", "true", "sim", "/sim/path", "2", "x86_64", "always", "1.60", "1.83.0", "1.90", "2024", "linux", "never", "", "my_crate"];
    let s = format!("{}\0", v[((h >> 8) % v.len() as u64) as usize]);
    Box::leak(s.into_boxed_str()).as_ptr() as *mut u8
}

#[no_mangle]
pub unsafe extern "C" fn getcwd(buf: *mut u8, size: usize) -> *mut u8 {
    if is_worker() {
        CWD_READS_WORKER.fetch_add(1, Ordering::SeqCst);
    }
    if buf.is_null() {
        // glibc extension (allocate): std never uses it
        return std::ptr::null_mut();
    }
    let r = syscall(SYS_GETCWD, buf, size);
    if r < 0 {
        std::ptr::null_mut()
    } else {
        buf
    }
}

/// File opens (std::fs goes through open64). Counted for workers, always passed through: the
/// simulated process runs with its cwd, TMPDIR, HOME, OUT_DIR ... inside a per-scenario sandbox
/// directory that starts empty, so on-disk state is part of the simulated world.
#[no_mangle]
pub unsafe extern "C" fn open64(path: *const u8, flags: i32, mode: u32) -> i32 {
    if is_worker() {
        FS_CALLS_WORKER.fetch_add(1, Ordering::SeqCst);
    }
    syscall(SYS_OPENAT, AT_FDCWD, path, flags as i64, mode as i64) as i32
}

#[no_mangle]
pub unsafe extern "C" fn open(path: *const u8, flags: i32, mode: u32) -> i32 {
    open64(path, flags, mode)
}

/// Is this file descriptor a terminal? (`std::io::IsTerminal`: coloured or abbreviated diagnostics.)
#[no_mangle]
pub unsafe extern "C" fn isatty(fd: i32) -> i32 {
    const SYS_IOCTL: i64 = 16;
    const TCGETS: i64 = 0x5401;
    if is_worker() {
        TTY_READS_WORKER.fetch_add(1, Ordering::SeqCst);
        match SIM_ISATTY.load(Ordering::SeqCst) {
            1 => return 0,
            2 => return 1,
            _ => {},
        }
    }
    let mut termios = [0u8; 64];
    if syscall(SYS_IOCTL, fd as i64, TCGETS, termios.as_mut_ptr()) == 0 {
        1
    } else {
        0
    }
}

/// CPU affinity mask (`std::thread::available_parallelism`). Workers see the simulated count.
#[no_mangle]
pub unsafe extern "C" fn sched_getaffinity(pid: i32, size: usize, mask: *mut u8) -> i32 {
    let n = SIM_NCPU.load(Ordering::SeqCst) as usize;
    if is_worker() {
        NCPU_READS_WORKER.fetch_add(1, Ordering::SeqCst);
        if n > 0 && !mask.is_null() {
            for i in 0..size {
                *mask.add(i) = 0;
            }
            for c in 0..n.min(size * 8) {
                *mask.add(c / 8) |= 1 << (c % 8);
            }
            return 0;
        }
    }
    let r = syscall(SYS_SCHED_GETAFFINITY, pid as i64, size, mask);
    if r < 0 {
        -1
    } else {
        0
    }
}

/// Real monotonic time in seconds (raw syscall; never the simulated clock).
pub fn real_now_s() -> f64 {
    let mut ts = Timespec { tv_sec: 0, tv_nsec: 0 };
    unsafe {
        syscall(SYS_CLOCK_GETTIME, 1i64, &mut ts as *mut Timespec);
    }
    ts.tv_sec as f64 + ts.tv_nsec as f64 * 1e-9
}
