//! The only source of choices in the simulator: xoshiro256** seeded through SplitMix64.
//! No dependency, no OS entropy, no clock.

#[inline]
pub fn mix64(mut z: u64) -> u64 {
    z = z.wrapping_add(0x9E37_79B9_7F4A_7C15);
    z = (z ^ (z >> 30)).wrapping_mul(0xBF58_476D_1CE4_E5B9);
    z = (z ^ (z >> 27)).wrapping_mul(0x94D0_49BB_1331_11EB);
    z ^ (z >> 31)
}

/// seed of run `r` of a batch started with `VERIF_SEED = s`
pub fn run_seed(verif_seed: u64, run: u64) -> u64 {
    mix64(mix64(verif_seed) ^ mix64(run.wrapping_mul(0xD6E8_FEB8_6659_FD93).wrapping_add(1)))
}

#[derive(Clone, Debug)]
pub struct Rng {
    s: [u64; 4],
    pub draws: u64,
}

impl Rng {
    pub fn new(seed: u64) -> Rng {
        let mut x = seed;
        let mut s = [0u64; 4];
        for v in s.iter_mut() {
            x = x.wrapping_add(0x9E37_79B9_7F4A_7C15);
            *v = mix64(x);
        }
        if s == [0, 0, 0, 0] {
            s[0] = 1;
        }
        Rng { s, draws: 0 }
    }

    pub fn fork(&mut self) -> Rng {
        Rng::new(self.next_u64())
    }

    #[inline]
    pub fn next_u64(&mut self) -> u64 {
        self.draws += 1;
        let result = self.s[1].wrapping_mul(5).rotate_left(7).wrapping_mul(9);
        let t = self.s[1] << 17;
        self.s[2] ^= self.s[0];
        self.s[3] ^= self.s[1];
        self.s[1] ^= self.s[2];
        self.s[0] ^= self.s[3];
        self.s[2] ^= t;
        self.s[3] = self.s[3].rotate_left(45);
        result
    }

    /// uniform in 0..n (n > 0)
    #[inline]
    pub fn below(&mut self, n: u64) -> u64 {
        debug_assert!(n > 0);
        // multiply-shift; bias is irrelevant here (n is tiny compared with 2^64)
        ((self.next_u64() as u128 * n as u128) >> 64) as u64
    }

    #[inline]
    pub fn range(&mut self, lo: u64, hi_incl: u64) -> u64 {
        lo + self.below(hi_incl - lo + 1)
    }

    #[inline]
    pub fn usize(&mut self, n: usize) -> usize {
        self.below(n as u64) as usize
    }

    /// true with probability num/den
    #[inline]
    pub fn chance(&mut self, num: u64, den: u64) -> bool {
        self.below(den) < num
    }

    pub fn pick<'a, T>(&mut self, xs: &'a [T]) -> &'a T {
        &xs[self.usize(xs.len())]
    }

    pub fn shuffle<T>(&mut self, xs: &mut [T]) {
        for i in (1..xs.len()).rev() {
            let j = self.usize(i + 1);
            xs.swap(i, j);
        }
    }

    /// geometric-ish: number of successes before a failure with p = num/den, capped
    pub fn geometric(&mut self, num: u64, den: u64, cap: u64) -> u64 {
        let mut k = 0;
        while k < cap && self.chance(num, den) {
            k += 1;
        }
        k
    }
}
