//! Seeded generator of derive inputs: wide requests the repository's tests lack. Width matters
//! because a hash-ordered container only misbehaves visibly with >= 2 keys, so most generated
//! inputs carry >= 2 traits, >= 2 generic parameters, >= 2 delegated field types, >= 2 variants and
//! (for Into) 2..6 targets. A fraction is deliberately erroneous with >= 2 independent faults so
//! that "which diagnostic wins" is exercised too.

use crate::prng::Rng;

const TRAITS: [&str; 12] = [
    "Debug", "Clone", "Copy", "PartialEq", "Eq", "PartialOrd", "Ord", "Hash", "Default", "Deref",
    "DerefMut", "Into",
];

const PRIMS: [&str; 12] =
    ["u8", "u16", "u32", "u64", "i8", "i32", "i64", "usize", "bool", "char", "f64", "String"];

const INTO_TARGETS: [&str; 10] =
    ["u8", "u16", "u32", "u64", "u128", "i16", "i32", "i64", "f64", "String"];

#[derive(Clone, Copy, PartialEq, Eq, Debug)]
pub enum Kind {
    StructNamed,
    StructTuple,
    StructUnit,
    Enum,
    Union,
}

struct Generics {
    lifetimes: Vec<&'static str>,
    types: Vec<&'static str>,
    consts: Vec<&'static str>,
    where_clause: String,
    decl: String,
}

fn gen_generics(rng: &mut Rng, wide: bool) -> Generics {
    let mut g = Generics {
        lifetimes: vec![],
        types: vec![],
        consts: vec![],
        where_clause: String::new(),
        decl: String::new(),
    };
    let n_types = if wide { rng.range(2, 4) } else { rng.below(3) } as usize;
    let names = ["T", "K", "U", "V"];
    if rng.chance(1, 4) {
        g.lifetimes.push("'a");
    }
    for n in names.iter().take(n_types) {
        g.types.push(n);
    }
    if rng.chance(1, 6) {
        g.consts.push("N");
    }
    let mut parts: Vec<String> = vec![];
    for l in &g.lifetimes {
        parts.push(l.to_string());
    }
    for t in &g.types {
        match rng.below(5) {
            0 => parts.push(format!("{t}: ::core::fmt::Debug")),
            1 => parts.push(format!("{t}: Clone + PartialEq")),
            2 if g.consts.is_empty() => parts.push(format!("{t} = u8")),
            _ => parts.push(t.to_string()),
        }
    }
    for c in &g.consts {
        parts.push(format!("const {c}: usize"));
    }
    if !parts.is_empty() {
        g.decl = format!("<{}>", parts.join(", "));
    }
    if !g.types.is_empty() && rng.chance(1, 3) {
        let mut preds = vec![];
        for t in &g.types {
            if rng.chance(1, 2) {
                preds.push(format!("{t}: {}", rng.pick(&["Copy", "Default", "Ord + Clone", "Into<u8>"])));
            }
        }
        if !preds.is_empty() {
            g.where_clause = format!(" where {}", preds.join(", "));
        }
    }
    g
}

fn gen_type(rng: &mut Rng, g: &Generics, depth: u32) -> String {
    let use_generic = !g.types.is_empty() && rng.chance(1, 2);
    if depth < 2 && rng.chance(1, 4) {
        let inner = gen_type(rng, g, depth + 1);
        return match rng.below(7) {
            0 => format!("Vec<{inner}>"),
            1 => format!("Option<{inner}>"),
            2 => format!("Box<{inner}>"),
            3 => format!("({inner}, {})", gen_type(rng, g, depth + 1)),
            4 => format!("::core::marker::PhantomData<{inner}>"),
            5 if !g.consts.is_empty() => format!("[{inner}; N]"),
            5 => format!("[{inner}; 4]"),
            _ if !g.lifetimes.is_empty() => format!("&'a {inner}"),
            _ => format!("std::rc::Rc<{inner}>"),
        };
    }
    if use_generic {
        rng.pick(&g.types).to_string()
    } else {
        rng.pick(&PRIMS).to_string()
    }
}

fn gen_bound(rng: &mut Rng, g: &Generics, tr: &str) -> Option<String> {
    match rng.below(8) {
        0 => Some("bound = false".to_string()),
        1 => Some("bound(*)".to_string()),
        2 | 3 if !g.types.is_empty() => {
            let mut preds = vec![];
            for t in &g.types {
                if rng.chance(2, 3) {
                    let b = match tr {
                        "Debug" => "::core::fmt::Debug",
                        "Clone" => "Clone",
                        "Copy" => "Copy",
                        "PartialEq" => "PartialEq",
                        "Eq" => "Eq",
                        "PartialOrd" => "PartialOrd",
                        "Ord" => "Ord",
                        "Hash" => "::core::hash::Hash",
                        "Default" => "Default",
                        _ => "Into<u8>",
                    };
                    if rng.chance(1, 3) {
                        preds.push(format!("{t}: {b} + 'static"));
                    } else {
                        preds.push(format!("{t}: {b}"));
                    }
                }
            }
            if preds.is_empty() {
                preds.push(format!("{}: Sized", g.types[0]));
            }
            if rng.chance(1, 4) {
                preds.push(format!("Vec<{}>: Clone", g.types[0]));
            }
            Some(format!("bound({})", preds.join(", ")))
        },
        _ => None,
    }
}

struct Field {
    name: Option<String>,
    ty: String,
    attrs: Vec<String>,
}

fn method_path(rng: &mut Rng, what: &str) -> String {
    match rng.below(3) {
        0 => what.to_string(),
        1 => format!("helpers::{what}"),
        _ => format!("crate::a::b::{what}2"),
    }
}

/// field-level attribute fragments for the requested traits
fn gen_field_attrs(rng: &mut Rng, traits: &[&str], idx: usize, rich: bool, named: bool, default_ok: bool) -> Vec<String> {
    let mut out = vec![];
    let has = |t: &str| traits.contains(&t);
    for tr in traits {
        if !rng.chance(if rich { 1 } else { 0 } + 1, 5) {
            continue;
        }
        let a = match *tr {
            "Debug" => match rng.below(5) {
                0 => "Debug(ignore)".to_string(),
                1 if named => format!("Debug(name(renamed{idx}))"),
                2 => format!("Debug(method({}))", method_path(rng, "fmt")),
                3 => "Debug = false".to_string(),
                _ if named => format!("Debug = alias{idx}"),
                _ => "Debug(ignore)".to_string(),
            },
            "Clone" if has("Copy") => continue,
            "PartialOrd" if has("Ord") => continue,
            "Default" if !default_ok => continue,
            "Clone" => format!("Clone(method({}))", method_path(rng, "clone")),
            "PartialEq" => match rng.below(3) {
                0 => "PartialEq(ignore)".to_string(),
                1 => format!("PartialEq(method({}))", method_path(rng, "eq")),
                _ => "PartialEq = false".to_string(),
            },
            "PartialOrd" => match rng.below(4) {
                0 => "PartialOrd(ignore)".to_string(),
                1 => format!("PartialOrd(method({}))", method_path(rng, "partial_cmp")),
                2 => format!("PartialOrd(rank = {})", rng.below(7) as i64 - 2 + 10 * idx as i64),
                _ => "PartialOrd = false".to_string(),
            },
            "Ord" => match rng.below(4) {
                0 => "Ord(ignore)".to_string(),
                1 => format!("Ord(method({}))", method_path(rng, "cmp")),
                2 => format!("Ord(rank = {})", rng.below(7) as i64 - 2 + 10 * idx as i64),
                _ => "Ord = false".to_string(),
            },
            "Hash" => match rng.below(3) {
                0 => "Hash(ignore)".to_string(),
                1 => format!("Hash(method({}))", method_path(rng, "hash")),
                _ => "Hash = false".to_string(),
            },
            "Default" => match rng.below(5) {
                0 => format!("Default = {}", rng.below(100)),
                1 => "Default = \"hi\"".to_string(),
                2 => format!("Default(expression = {} + 1)", rng.below(9)),
                3 => "Default(expression = ::core::default::Default::default())".to_string(),
                _ => "Default = true".to_string(),
            },
            _ => continue,
        };
        out.push(a);
    }
    out
}

fn gen_fields(rng: &mut Rng, g: &Generics, named: bool, n: usize, traits: &[&str], rich: bool, default_ok: bool) -> Vec<Field> {
    let mut v = vec![];
    for i in 0..n {
        let ty = gen_type(rng, g, 0);
        let attrs = gen_field_attrs(rng, traits, i, rich, named, default_ok);
        v.push(Field { name: if named { Some(format!("f{i}")) } else { None }, ty, attrs });
    }
    v
}

fn render_attr_list(rng: &mut Rng, frags: &[String], indent: &str) -> String {
    // spread fragments over 1..k `#[educe(..)]` attributes
    let mut s = String::new();
    let mut i = 0;
    while i < frags.len() {
        let take = if rng.chance(1, 3) { 1 } else { rng.range(1, (frags.len() - i) as u64) as usize };
        s.push_str(&format!("{indent}#[educe({})]\n", frags[i..i + take].join(", ")));
        i += take;
    }
    s
}

fn render_fields(rng: &mut Rng, fields: &[Field], named: bool, indent: &str) -> String {
    let mut s = String::new();
    for f in fields {
        s.push_str(&render_attr_list(rng, &f.attrs, indent));
        match (&f.name, named) {
            (Some(n), true) => s.push_str(&format!("{indent}{n}: {},\n", f.ty)),
            _ => s.push_str(&format!("{indent}{},\n", f.ty)),
        }
    }
    s
}

fn pick_traits(rng: &mut Rng, kind: Kind, wide: bool) -> Vec<&'static str> {
    let mut chosen: Vec<&'static str> = vec![];
    let want = if wide { rng.range(3, 9) } else { rng.range(1, 4) } as usize;
    let mut pool: Vec<&'static str> = TRAITS.to_vec();
    if kind == Kind::Union {
        pool.retain(|t| !matches!(*t, "PartialOrd" | "Ord" | "Deref" | "DerefMut" | "Into"));
    }
    rng.shuffle(&mut pool);
    for t in pool.into_iter().take(want) {
        chosen.push(t);
    }
    // keep declaration order pseudo-random but stable (the shuffle above decides it)
    if chosen.contains(&"Copy") && !chosen.contains(&"Clone") && rng.chance(3, 4) {
        chosen.push("Clone");
    }
    if chosen.contains(&"DerefMut") && !chosen.contains(&"Deref") && rng.chance(3, 4) {
        chosen.push("Deref");
    }
    chosen
}

pub struct GenOpts {
    /// probability (percent) of injecting faults
    pub error_pct: u64,
    /// force an Into-heavy input
    pub into_heavy: bool,
}

/// Generate one derive input as source text. `name` becomes the type identifier.
pub fn generate(rng: &mut Rng, name: &str, opts: &GenOpts) -> String {
    let kind = match rng.below(100) {
        0..=34 => Kind::StructNamed,
        35..=49 => Kind::StructTuple,
        50..=52 => Kind::StructUnit,
        53..=92 => Kind::Enum,
        _ => Kind::Union,
    };
    let kind = if opts.into_heavy && matches!(kind, Kind::Union | Kind::StructUnit) {
        Kind::StructNamed
    } else {
        kind
    };
    let wide = rng.chance(3, 4);
    let g = gen_generics(rng, wide && kind != Kind::Union);
    let mut traits = pick_traits(rng, kind, wide);
    if opts.into_heavy && !traits.contains(&"Into") {
        traits.push("Into");
    }
    let rich = rng.chance(1, 2);
    let errors = rng.chance(opts.error_pct, 100);

    // ---------------- type-level fragments
    let mut type_frags: Vec<String> = vec![];
    let mut into_targets: Vec<String> = vec![];
    for tr in &traits {
        let mut params: Vec<String> = vec![];
        match *tr {
            "Debug" => {
                match rng.below(8) {
                    0 => params.push(format!("name({name}Renamed)")),
                    1 if kind != Kind::StructUnit && kind != Kind::Union => params.push("name = false".to_string()),
                    2 if kind == Kind::Enum => params.push("name = true".to_string()),
                    _ => {},
                }
                match rng.below(6) {
                    0 if matches!(kind, Kind::StructNamed | Kind::StructTuple) => params.push("named_field = false".to_string()),
                    1 if matches!(kind, Kind::StructNamed | Kind::StructTuple) => params.push("named_field = true".to_string()),
                    _ => {},
                }
                if kind == Kind::Union {
                    params.push("unsafe".to_string());
                }
            },
            "PartialEq" | "Hash" if kind == Kind::Union => params.push("unsafe".to_string()),
            "Default" => {
                if rng.chance(1, 3) {
                    params.push("new".to_string());
                }
            },
            "Into" => {
                let n = if opts.into_heavy || wide { rng.range(2, 6) } else { rng.range(1, 3) } as usize;
                let mut pool: Vec<String> = INTO_TARGETS.iter().map(|s| s.to_string()).collect();
                for t in &g.types {
                    pool.push(t.to_string());
                    pool.push(format!("Vec<{t}>"));
                }
                rng.shuffle(&mut pool);
                into_targets = pool.into_iter().take(n).collect();
            },
            _ => {},
        }
        if *tr == "Into" {
            for t in &into_targets {
                let mut p = vec![t.clone()];
                if let Some(b) = gen_bound(rng, &g, tr) {
                    p.push(b);
                }
                type_frags.push(format!("Into({})", p.join(", ")));
            }
            continue;
        }
        let bound_ok = match *tr {
            "Deref" | "DerefMut" => false,
            "Copy" => !traits.contains(&"Clone"),
            "Eq" => !traits.contains(&"PartialEq"),
            "PartialOrd" => !traits.contains(&"Ord"),
            "Debug" | "PartialEq" | "Hash" if kind == Kind::Union => false,
            _ => true,
        };
        if bound_ok {
            if let Some(b) = gen_bound(rng, &g, tr) {
                params.push(b);
            }
        }
        if params.is_empty() {
            type_frags.push(tr.to_string());
        } else {
            type_frags.push(format!("{tr}({})", params.join(", ")));
        }
    }

    // ---------------- body
    let field_traits: Vec<&str> = traits.clone();
    let mut body = String::new();
    let mut header_kw = "struct";
    let mut tail = String::new();
    match kind {
        Kind::StructUnit => {
            tail = ";".to_string();
        },
        Kind::StructNamed | Kind::StructTuple | Kind::Union => {
            let named = kind != Kind::StructTuple;
            let n = if wide { rng.range(2, 8) } else { rng.range(1, 3) } as usize;
            let mut fields = gen_fields(rng, &g, named, n, &field_traits, rich, true);
            if kind == Kind::Union {
                header_kw = "union";
                for f in fields.iter_mut() {
                    f.ty = rng.pick(&["u8", "u16", "u32", "u64", "f32", "[u8; 8]"]).to_string();
                    f.attrs.retain(|a| a.starts_with("Default"));
                }
                if traits.contains(&"Default") {
                    let k = rng.usize(fields.len());
                    if !fields[k].attrs.iter().any(|a| a.starts_with("Default")) {
                        fields[k].attrs.push("Default".to_string());
                    }
                    for (i, f) in fields.iter_mut().enumerate() {
                        if i != k {
                            f.attrs.retain(|a| !a.starts_with("Default"));
                        }
                    }
                }
            }
            decorate_markers(rng, &mut fields, &traits, &into_targets, errors);
            if named {
                body = format!(" {{\n{}}}", render_fields(rng, &fields, true, "    "));
            } else {
                body = format!("(\n{})", render_fields(rng, &fields, false, "    "));
                tail = ";".to_string();
            }
        },
        Kind::Enum => {
            header_kw = "enum";
            let nv = if wide { rng.range(2, 6) } else { rng.range(1, 3) } as usize;
            let default_variant = rng.usize(nv);
            let mut vs = String::new();
            let with_disc = rng.chance(1, 4);
            for vi in 0..nv {
                let no_unit = traits.iter().any(|t| matches!(*t, "Deref" | "DerefMut" | "Into"));
                let shape = if no_unit { rng.range(1, 2) } else { rng.below(3) };
                let is_default = vi == default_variant;
                let mut vattrs: Vec<String> = vec![];
                if traits.contains(&"Debug") && rng.chance(1, 4) {
                    vattrs.push(match rng.below(3) {
                        1 if shape != 0 => "Debug(name = false)".to_string(),
                        2 if shape != 0 => format!("Debug(named_field = {})", rng.chance(1, 2)),
                        _ => format!("Debug(name(Variant{vi}Renamed))"),
                    });
                }
                if traits.contains(&"Default") && vi == default_variant {
                    vattrs.push("Default".to_string());
                }
                vs.push_str(&render_attr_list(rng, &vattrs, "    "));
                match shape {
                    0 => {
                        if with_disc {
                            vs.push_str(&format!("    V{vi} = {},\n", (vi as i64) * 3 - 2));
                        } else {
                            vs.push_str(&format!("    V{vi},\n"));
                        }
                    },
                    1 => {
                        let n = rng.range(1, 4) as usize;
                        let mut fields = gen_fields(rng, &g, false, n, &field_traits, rich, is_default);
                        decorate_markers(rng, &mut fields, &traits, &into_targets, errors);
                        vs.push_str(&format!(
                            "    V{vi}(\n{}    ),\n",
                            render_fields(rng, &fields, false, "        ")
                        ));
                    },
                    _ => {
                        let n = rng.range(1, 4) as usize;
                        let mut fields = gen_fields(rng, &g, true, n, &field_traits, rich, is_default);
                        decorate_markers(rng, &mut fields, &traits, &into_targets, errors);
                        vs.push_str(&format!(
                            "    V{vi} {{\n{}    }},\n",
                            render_fields(rng, &fields, true, "        ")
                        ));
                    },
                }
            }
            body = format!(" {{\n{vs}}}");
        },
    }

    // ---------------- faults
    if errors {
        let n_faults = rng.range(1, 3);
        for _ in 0..n_faults {
            match rng.below(8) {
                0 => {
                    // duplicate trait
                    if let Some(f) = type_frags.first().cloned() {
                        type_frags.push(f);
                    }
                },
                1 => type_frags.push("Serialize".to_string()),
                2 => type_frags.push("Debug(nme = false)".to_string()),
                3 => type_frags.push(format!("Into({})", rng.pick(&["i8", "isize", "Box<str>"]))),
                4 => type_frags.push("Clone = 1".to_string()),
                5 => type_frags.push("Hash()".to_string()),
                6 => type_frags.push("Default(expression)".to_string()),
                _ => type_frags.push("PartialOrd(rank = 1)".to_string()),
            }
        }
        if rng.chance(1, 2) {
            rng.shuffle(&mut type_frags);
        }
    }

    let mut s = String::new();
    s.push_str("#[derive(Educe)]\n");
    if kind == Kind::Enum && rng.chance(1, 5) {
        s.push_str(&format!("#[repr({})]\n", rng.pick(&["u8", "i32", "u64", "C"])));
    }
    s.push_str(&render_attr_list(rng, &type_frags, ""));
    let vis = rng.pick(&["", "pub ", "pub(crate) "]);
    if matches!(kind, Kind::StructTuple) {
        // tuple struct: where clause goes after the fields
        s.push_str(&format!("{vis}{header_kw} {name}{}{body}{}{tail}\n", g.decl, g.where_clause));
    } else if kind == Kind::StructUnit {
        s.push_str(&format!("{vis}{header_kw} {name}{}{}{tail}\n", g.decl, g.where_clause));
    } else {
        s.push_str(&format!("{vis}{header_kw} {name}{}{}{body}{tail}\n", g.decl, g.where_clause));
    }
    s
}

/// Deref / DerefMut / Into markers on fields. With `errors`, sometimes put >= 2 undeclared Into
/// targets on one field and leave some targets without a candidate.
fn decorate_markers(rng: &mut Rng, fields: &mut [Field], traits: &[&str], into_targets: &[String], errors: bool) {
    if fields.is_empty() {
        return;
    }
    if traits.contains(&"Deref") && (fields.len() > 1 || rng.chance(1, 3)) {
        let k = rng.usize(fields.len());
        fields[k].attrs.push("Deref".to_string());
    }
    if traits.contains(&"DerefMut") && (fields.len() > 1 || rng.chance(1, 3)) {
        let k = rng.usize(fields.len());
        fields[k].attrs.push("DerefMut".to_string());
    }
    if traits.contains(&"Into") {
        for t in into_targets {
            if errors && rng.chance(1, 4) {
                continue; // no candidate for this target
            }
            if fields.len() == 1 && rng.chance(1, 2) {
                continue; // single field: implicit
            }
            let k = rng.usize(fields.len());
            let frag = if rng.chance(1, 3) {
                format!("Into({t}, method({}))", method_path(rng, "into"))
            } else {
                format!("Into({t})")
            };
            fields[k].attrs.push(frag);
        }
        if errors && rng.chance(1, 2) {
            // two or more undeclared targets on one field: which one is reported?
            let k = rng.usize(fields.len());
            let mut extra = vec!["i8", "isize", "u128x", "Box<str>", "Vec<u8>", "char"];
            rng.shuffle(&mut extra);
            for e in extra.iter().take(rng.range(2, 4) as usize) {
                fields[k].attrs.push(format!("Into({e})"));
            }
        }
    }
}

/// A polluter that reuses `name` with a different body: defeats any cache keyed by identifier.
pub fn same_name_variant(rng: &mut Rng, name: &str) -> String {
    let opts = GenOpts { error_pct: 10, into_heavy: rng.chance(1, 2) };
    generate(rng, name, &opts)
}
