//! Seeded generator of derive inputs: wide requests the repository's tests lack.
//!
//! * Width: a hash-ordered container only misbehaves visibly with >= 2 keys, so most inputs carry
//!   >= 2 traits, >= 2 generic parameters, >= 2 (often repeated) field types, >= 2 variants and, for
//!   Into, 2..6 targets.
//! * Shared vocabulary: type names, generic-parameter names, user type names and field names are
//!   drawn from small pools shared by all inputs, so that two inputs of one run frequently spell the
//!   same identifier or the same field type with a *different meaning* (`Item` a generic parameter
//!   here, a concrete type there). Anything memoised by spelling across expansions is exposed.
//! * Faults: a catalogue of fault classes (one per diagnostic the crate can produce); an erroneous
//!   input gets 1..3 classes, and within a class usually >= 2 independent instances, so that "which
//!   diagnostic wins" and "in which order are several reported" are exercised.

use crate::prng::Rng;

const TRAITS: [&str; 12] = [
    "Debug", "Clone", "Copy", "PartialEq", "Eq", "PartialOrd", "Ord", "Hash", "Default", "Deref",
    "DerefMut", "Into",
];

const PRIMS: [&str; 12] =
    ["u8", "u16", "u32", "u64", "i8", "i32", "i64", "usize", "bool", "char", "f64", "String"];

const INTO_TARGETS: [&str; 10] =
    ["u8", "u16", "u32", "u64", "u128", "i16", "i32", "i64", "f64", "String"];

/// names that are generic parameters in some inputs and concrete user types in others
const VOCAB: [&str; 8] = ["T", "K", "U", "V", "Item", "Key", "Node", "Error"];

/// Names the crate's own templates use (set once per process by the corpus harvester).
static TEMPLATE_VOCAB: std::sync::OnceLock<(Vec<String>, Vec<String>)> = std::sync::OnceLock::new();

static TESTED_WORDS: std::sync::OnceLock<Vec<(String, usize)>> = std::sync::OnceLock::new();

/// (word, number of distinct examples of the repository that write it inside `#[educe(..)]`)
pub fn set_tested_words(words: &[(String, usize)]) {
    let _ = TESTED_WORDS.set(words.to_vec());
}

/// parameter-like words of the source that at most two examples in the repository write inside
/// `#[educe(..)]`: undocumented aliases, and parameters a change has just introduced (with or
/// without one documentation example)
fn untested_param_words() -> Vec<&'static str> {
    let (Some(p), Some(t)) = (PARAM_WORDS.get(), TESTED_WORDS.get()) else { return vec![] };
    const PRIMS: [&str; 17] = ["bool", "char", "str", "i8", "i16", "i32", "i64", "i128", "isize", "u8", "u16", "u32", "u64", "u128", "usize", "f32", "f64"];
    p.iter()
        .filter(|w| w.chars().next().map(|c| c.is_lowercase()).unwrap_or(false))
        .filter(|w| !t.iter().any(|(tw, n)| tw == *w && *n > 2) && !PRIMS.contains(&w.as_str()))
        .map(|w| w.as_str())
        .collect()
}

/// A *parameter probe*: a small, otherwise valid item that uses one parameter-like word of the
/// crate's source in one trait's request, at type, variant or field level — preferring words the
/// repository's examples never use.
pub fn param_probe(rng: &mut Rng, name: &str) -> String {
    let untested = untested_param_words();
    let word: String = if !untested.is_empty() && rng.chance(17, 20) {
        untested[rng.usize(untested.len())].to_string()
    } else {
        param_word(rng).unwrap_or("name").to_string()
    };
    let tr = probe_trait(rng, &word);
    param_probe_for(rng, name, &word, tr)
}

pub fn rare_words() -> Vec<&'static str> {
    untested_param_words()
}

/// how many untested parameter words the current tree has (0: no probe runs)
pub fn untested_word_count() -> usize {
    untested_param_words().len()
}

/// (word, trait) for a *probe run*: all targets of the run probe the same pair in different forms
pub fn probe_pair(rng: &mut Rng) -> Option<(String, &'static str)> {
    let u = untested_param_words();
    if u.is_empty() {
        return None;
    }
    let w = u[rng.usize(u.len())].to_string();
    let tr = probe_trait(rng, &w);
    Some((w, tr))
}

pub fn param_probe_for(rng: &mut Rng, name: &str, word: &str, tr: &str) -> String {
    let req = match rng.below(5) {
        0 | 1 => format!("{tr}({word})"),
        2 => format!("{tr}({word} = {})", rng.pick(&["true", "false", "Shown", "\"text\"", "1"])),
        3 => format!("{tr}({word}(Shown))"),
        _ => format!("{tr}({word}, name = false)"),
    };
    let plain = tr.to_string();
    let level = rng.below(10);
    let (ty_req, var_req, fld_req) = match level {
        0..=4 => (req.clone(), String::new(), String::new()),
        5..=6 => (plain.clone(), format!("#[educe({req})] "), String::new()),
        _ => (plain.clone(), String::new(), format!("#[educe({req})] ")),
    };
    let extra = if rng.chance(1, 2) { ", Clone" } else { "" };
    match rng.below(4) {
        0 => format!("#[derive(Educe)]\n#[educe({ty_req}{extra})]\nstruct {name}<T> {{ {fld_req}a: u8, b: T, c: T }}\n"),
        1 => format!("#[derive(Educe)]\n#[educe({ty_req}{extra})]\nstruct {name}<T>({fld_req}u8, T);\n"),
        2 => format!("#[derive(Educe)]\n#[educe({ty_req}{extra})]\nenum {name}<T> {{ {var_req}A({fld_req}u8, T), B {{ x: T }}, C }}\n"),
        _ => format!("#[derive(Educe)]\n#[educe({ty_req}{extra})]\nstruct {name};\n"),
    }
}

static PARAM_WORDS: std::sync::OnceLock<Vec<String>> = std::sync::OnceLock::new();
static PARAM_SITES: std::sync::OnceLock<Vec<(String, Option<String>)>> = std::sync::OnceLock::new();

pub fn set_param_sites(sites: &[(String, Option<String>)]) {
    let _ = PARAM_SITES.set(sites.to_vec());
}

pub fn is_trait_name(s: &str) -> bool {
    TRAITS.contains(&s)
}

/// the traits whose handlers' sources mention `word` (empty: only shared code does)
fn traits_of_word(word: &str) -> Vec<&'static str> {
    let Some(sites) = PARAM_SITES.get() else { return vec![] };
    TRAITS.iter().copied().filter(|t| sites.iter().any(|(w, tr)| w == word && tr.as_deref() == Some(*t))).collect()
}

fn probe_trait(rng: &mut Rng, word: &str) -> &'static str {
    let ts = traits_of_word(word);
    if !ts.is_empty() && rng.chance(4, 5) {
        ts[rng.usize(ts.len())]
    } else {
        *rng.pick(&TRAITS[..11])
    }
}

pub fn set_param_words(words: &[String]) {
    let _ = PARAM_WORDS.set(words.to_vec());
}

fn param_word(rng: &mut Rng) -> Option<&'static str> {
    let v = PARAM_WORDS.get()?;
    let lower: Vec<&String> = v.iter().filter(|w| w.chars().next().map(|c| c.is_lowercase()).unwrap_or(false)).collect();
    if lower.is_empty() {
        None
    } else {
        Some(lower[rng.usize(lower.len())].as_str())
    }
}

pub fn set_template_vocab(upper: &[String], lower: &[String]) {
    let _ = TEMPLATE_VOCAB.set((upper.to_vec(), lower.to_vec()));
}

fn template_upper(rng: &mut Rng) -> Option<&'static str> {
    let v = &TEMPLATE_VOCAB.get()?.0;
    if v.is_empty() {
        return None;
    }
    // short names are the ones generated code declares as its own generic parameters: favour them
    let short: Vec<&String> = v.iter().filter(|n| n.len() <= 2).collect();
    if !short.is_empty() && rng.chance(1, 2) {
        return Some(short[rng.usize(short.len())].as_str());
    }
    Some(v[rng.usize(v.len())].as_str())
}

fn template_lower(rng: &mut Rng) -> Option<&'static str> {
    let v: Vec<&String> = TEMPLATE_VOCAB.get()?.1.iter().filter(|n| !matches!(n.as_str(), "true" | "false")).collect();
    if v.is_empty() {
        None
    } else {
        Some(v[rng.usize(v.len())].as_str())
    }
}

#[derive(Clone, Copy, PartialEq, Eq, Debug)]
pub enum Kind {
    StructNamed,
    StructTuple,
    StructUnit,
    Enum,
    Union,
}

#[derive(Clone)]
struct Generics {
    lifetimes: Vec<&'static str>,
    types: Vec<&'static str>,
    consts: Vec<&'static str>,
    where_clause: String,
    decl: String,
}

#[derive(Clone)]
struct Field {
    name: Option<String>,
    ty: String,
    attrs: Vec<String>,
}

#[derive(Clone, Copy, PartialEq, Eq)]
enum Shape {
    Unit,
    Tuple,
    Named,
}

#[derive(Clone)]
struct Variant {
    name: String,
    attrs: Vec<String>,
    shape: Shape,
    fields: Vec<Field>,
    disc: Option<i64>,
}

struct Model {
    /// unusually big / extreme input (sizes and numbers small examples never have)
    big: bool,
    /// where `#[derive(..)]` sits relative to the educe attributes, and which other derives share it
    derive_line: String,
    derive_last: bool,
    kind: Kind,
    name: String,
    g: Generics,
    traits: Vec<&'static str>,
    type_frags: Vec<String>,
    into_targets: Vec<String>,
    fields: Vec<Field>,
    variants: Vec<Variant>,
    repr: Option<&'static str>,
    vis: &'static str,
}

fn gen_generics(rng: &mut Rng, wide: bool) -> Generics {
    let mut g = Generics { lifetimes: vec![], types: vec![], consts: vec![], where_clause: String::new(), decl: String::new() };
    let n_types = if wide { rng.range(2, 4) } else { rng.below(3) } as usize;
    if rng.chance(1, 4) {
        g.lifetimes.push("'a");
    }
    // mostly the conventional T, K, U, V in order; sometimes names from the shared vocabulary
    if rng.chance(1, 4) {
        let mut pool: Vec<&'static str> = VOCAB.to_vec();
        rng.shuffle(&mut pool);
        g.types = pool.into_iter().take(n_types).collect();
    } else {
        g.types = VOCAB.iter().take(n_types).copied().collect();
    }
    // sometimes a parameter is named like something the generated code itself declares (`H`, `V`, ...)
    if !g.types.is_empty() && rng.chance(1, 5) {
        if let Some(n) = template_upper(rng) {
            if !g.types.contains(&n) {
                let k = rng.usize(g.types.len());
                g.types[k] = n;
            }
        }
    }
    if rng.chance(1, 6) {
        g.consts.push("N");
    }
    let mut parts: Vec<String> = vec![];
    for l in &g.lifetimes {
        parts.push(l.to_string());
    }
    for t in &g.types {
        match rng.below(5) {
            0 => parts.push(format!("{t}: ::core::fmt::Debug")),
            1 => parts.push(format!("{t}: Clone + PartialEq")),
            2 if g.consts.is_empty() => parts.push(format!("{t} = u8")),
            _ => parts.push(t.to_string()),
        }
    }
    for c in &g.consts {
        parts.push(format!("const {c}: usize"));
    }
    if !parts.is_empty() {
        g.decl = format!("<{}>", parts.join(", "));
    }
    if !g.types.is_empty() && rng.chance(1, 3) {
        let mut preds = vec![];
        for t in &g.types {
            if rng.chance(1, 2) {
                preds.push(format!("{t}: {}", rng.pick(&["Copy", "Default", "Ord + Clone", "Into<u8>"])));
            }
        }
        if rng.chance(1, 6) {
            preds.push(format!("for<'x> {}: Fn(&'x u8) -> u8", g.types[0]));
        }
        if rng.chance(1, 6) {
            preds.push(format!("Vec<{}>: ::core::fmt::Debug", g.types[0]));
        }
        if !preds.is_empty() {
            g.where_clause = format!(" where {}", preds.join(", "));
        }
    }
    g
}

fn gen_leaf(rng: &mut Rng, g: &Generics) -> String {
    // now and then a type shape the repository's examples never show
    if rng.chance(1, 14) {
        let t = if g.types.is_empty() { "u8" } else { g.types[rng.usize(g.types.len())] };
        return match rng.below(10) {
            0 => "Box<dyn ::core::fmt::Debug + 'static>".to_string(),
            1 => format!("fn(u8) -> {t}"),
            2 => format!("*const {t}"),
            3 => "&'static str".to_string(),
            4 => format!("::std::collections::HashMap<String, {t}>"),
            5 => format!("<{t} as ::core::iter::Iterator>::Item"),
            6 => format!("[{t}; {{ 1 + 2 }}]"),
            7 => format!("(({t},), [u8; 0], ())"),
            8 => "r#type".to_string(),
            _ => format!("Option<Box<Vec<Option<{t}>>>>"),
        };
    }
    // associated types of the item's own type parameters (`T::Item`, `K::Error`, ..): what a
    // derive has to bound in addition to the parameters themselves
    if !g.types.is_empty() && rng.chance(1, 12) {
        let t = g.types[rng.usize(g.types.len())];
        let assoc = *rng.pick(&["Item", "Output", "Error", "Target", "Owned", "IntoIter"]);
        return if rng.chance(1, 4) {
            let tr = match assoc {
                "Item" => "::core::iter::Iterator",
                "Output" => "::core::ops::Add",
                "Error" => "::core::str::FromStr",
                "Target" => "::core::ops::Deref",
                "Owned" => "ToOwned",
                _ => "IntoIterator",
            };
            format!("<{t} as {tr}>::{assoc}")
        } else {
            format!("{t}::{assoc}")
        };
    }
    match rng.below(20) {
        0..=8 if !g.types.is_empty() => rng.pick(&g.types).to_string(),
        9..=10 => {
            // a *concrete* user type whose name is a generic parameter elsewhere
            let cands: Vec<&&str> = VOCAB.iter().filter(|v| !g.types.contains(v)).collect();
            if cands.is_empty() {
                rng.pick(&PRIMS).to_string()
            } else {
                rng.pick(&cands).to_string()
            }
        },
        _ => rng.pick(&PRIMS).to_string(),
    }
}

fn gen_type(rng: &mut Rng, g: &Generics, depth: u32) -> String {
    if depth < 2 && rng.chance(1, 4) {
        let inner = gen_type(rng, g, depth + 1);
        return match rng.below(7) {
            0 => format!("Vec<{inner}>"),
            1 => format!("Option<{inner}>"),
            2 => format!("Box<{inner}>"),
            3 => format!("({inner}, {})", gen_type(rng, g, depth + 1)),
            4 => format!("::core::marker::PhantomData<{inner}>"),
            5 if !g.consts.is_empty() => format!("[{inner}; N]"),
            5 => format!("[{inner}; 4]"),
            _ if !g.lifetimes.is_empty() => format!("&'a {inner}"),
            _ => format!("std::rc::Rc<{inner}>"),
        };
    }
    gen_leaf(rng, g)
}

fn trait_bound_path(tr: &str) -> &'static str {
    match tr {
        "Debug" => "::core::fmt::Debug",
        "Clone" => "Clone",
        "Copy" => "Copy",
        "PartialEq" => "PartialEq",
        "Eq" => "Eq",
        "PartialOrd" => "PartialOrd",
        "Ord" => "Ord",
        "Hash" => "::core::hash::Hash",
        "Default" => "Default",
        _ => "Into<u8>",
    }
}

fn gen_bound(rng: &mut Rng, g: &Generics, tr: &str) -> Option<String> {
    match rng.below(8) {
        0 => Some("bound = false".to_string()),
        1 => Some("bound(*)".to_string()),
        2 | 3 if !g.types.is_empty() => {
            let mut preds = vec![];
            for t in &g.types {
                if rng.chance(2, 3) {
                    let b = trait_bound_path(tr);
                    if rng.chance(1, 3) {
                        preds.push(format!("{t}: {b} + 'static"));
                    } else {
                        preds.push(format!("{t}: {b}"));
                    }
                }
            }
            if preds.is_empty() {
                preds.push(format!("{}: Sized", g.types[0]));
            }
            if rng.chance(1, 4) {
                preds.push(format!("Vec<{}>: Clone", g.types[0]));
            }
            Some(format!("bound({})", preds.join(", ")))
        },
        _ => None,
    }
}

fn method_path(rng: &mut Rng, what: &str) -> String {
    match rng.below(3) {
        0 => what.to_string(),
        1 => format!("helpers::{what}"),
        _ => format!("crate::a::b::{what}2"),
    }
}

/// one field-level attribute fragment for trait `tr` (valid form)
fn field_attr_for(rng: &mut Rng, tr: &str, idx: usize, named: bool) -> Option<String> {
    Some(match tr {
        "Debug" => match rng.below(5) {
            0 => "Debug(ignore)".to_string(),
            1 if named => format!("Debug(name(renamed{idx}))"),
            2 => format!("Debug(method({}))", method_path(rng, "fmt")),
            3 => "Debug = false".to_string(),
            _ if named => format!("Debug = alias{idx}"),
            _ => "Debug(ignore)".to_string(),
        },
        "Clone" => format!("Clone(method({}))", method_path(rng, "clone")),
        "PartialEq" => match rng.below(3) {
            0 => "PartialEq(ignore)".to_string(),
            1 => format!("PartialEq(method({}))", method_path(rng, "eq")),
            _ => "PartialEq = false".to_string(),
        },
        "PartialOrd" => match rng.below(4) {
            0 => "PartialOrd(ignore)".to_string(),
            1 => format!("PartialOrd(method({}))", method_path(rng, "partial_cmp")),
            2 => format!("PartialOrd(rank = {})", rng.below(7) as i64 - 2 + 10 * idx as i64),
            _ => "PartialOrd = false".to_string(),
        },
        "Ord" => match rng.below(4) {
            0 => "Ord(ignore)".to_string(),
            1 => format!("Ord(method({}))", method_path(rng, "cmp")),
            2 => format!("Ord(rank = {})", rng.below(7) as i64 - 2 + 10 * idx as i64),
            _ => "Ord = false".to_string(),
        },
        "Hash" => match rng.below(3) {
            0 => "Hash(ignore)".to_string(),
            1 => format!("Hash(method({}))", method_path(rng, "hash")),
            _ => "Hash = false".to_string(),
        },
        "Default" => match rng.below(5) {
            0 => format!("Default = {}", rng.below(100)),
            1 => "Default = \"hi\"".to_string(),
            2 => format!("Default(expression = {} + 1)", rng.below(9)),
            3 => "Default(expression = ::core::default::Default::default())".to_string(),
            _ => "Default = true".to_string(),
        },
        _ => return None,
    })
}

/// Alternative spellings the parser accepts for the same request (string-literal and `=` forms).
fn respell(rng: &mut Rng, frag: &str) -> String {
    let mut out = frag.to_string();
    // method(path) -> method = "path" | method("path") | method = path
    if let Some(i) = out.find("method(") {
        if let Some(j) = out[i..].find(')') {
            let path = out[i + 7..i + j].to_string();
            if !path.contains('"') {
                let rep = match rng.below(3) {
                    0 => format!("method = \"{path}\""),
                    1 => format!("method(\"{path}\")"),
                    _ => format!("method = {path}"),
                };
                out.replace_range(i..i + j + 1, &rep);
                return out;
            }
        }
    }
    if let Some(i) = out.find("name(") {
        if let Some(j) = out[i..].find(')') {
            let n = out[i + 5..i + j].to_string();
            if !n.contains('"') {
                let rep = match rng.below(3) {
                    0 => format!("name = \"{n}\""),
                    1 => format!("name(\"{n}\")"),
                    _ => format!("name = {n}"),
                };
                out.replace_range(i..i + j + 1, &rep);
                return out;
            }
        }
    }
    if let Some(i) = out.find("rank = ") {
        let tail = &out[i + 7..];
        let end = tail.find([',', ')']).unwrap_or(tail.len());
        let n = tail[..end].trim().to_string();
        if !n.contains('"') && !n.is_empty() {
            let rep = if rng.chance(1, 2) { format!("rank = \"{n}\"") } else { format!("rank({n})") };
            out.replace_range(i..i + 7 + end, &rep);
            return out;
        }
    }
    if let Some(i) = out.find("bound(") {
        // matching parenthesis
        let bytes = out.as_bytes();
        let mut depth = 0i32;
        let mut j = i + 5;
        while j < bytes.len() {
            if bytes[j] == b'(' {
                depth += 1;
            } else if bytes[j] == b')' {
                depth -= 1;
                if depth == 0 {
                    break;
                }
            }
            j += 1;
        }
        if j < bytes.len() {
            let preds = out[i + 6..j].to_string();
            if preds != "*" && !preds.contains('"') {
                let rep = if rng.chance(1, 2) { format!("bound = \"{preds}\"") } else { format!("bound(\"{preds}\")") };
                out.replace_range(i..j + 1, &rep);
                return out;
            }
        }
    }
    out
}

/// A request built from the crate's own vocabulary: `Trait(word)`, `Trait(word = value)`,
/// `Trait(word(value))` with `word` one of the identifier-like strings found in educe's source. Most
/// of these are rejected — but a parameter a change has just introduced is reached without the
/// generator knowing its name in advance.
fn vocab_param(rng: &mut Rng, tr: &str) -> Option<String> {
    // mostly words the macro demonstrably compares identifiers against
    let w = if rng.chance(3, 4) { param_word(rng).or_else(|| template_lower(rng))? } else { template_lower(rng)? };
    let val = *rng.pick(&["true", "false", "1", "\"text\"", "Name", "a::b", "-1"]);
    Some(match rng.below(4) {
        0 => format!("{tr}({w})"),
        1 => format!("{tr}({w} = {val})"),
        2 => format!("{tr}({w}({val}))"),
        _ => format!("{tr}({w} = {val}, {w}2)"),
    })
}

fn gen_field_attrs(rng: &mut Rng, traits: &[&str], idx: usize, rich: bool, named: bool, default_ok: bool) -> Vec<String> {
    let mut out = vec![];
    let has = |t: &str| traits.contains(&t);
    for tr in traits {
        if !rng.chance(if rich { 2 } else { 1 }, 5) {
            continue;
        }
        match *tr {
            "Clone" if has("Copy") => continue,
            "PartialOrd" if has("Ord") && !rng.chance(1, 10) => continue,
            "Default" if !default_ok => continue,
            _ => {},
        }
        if rng.chance(1, 250) {
            if let Some(a) = vocab_param(rng, tr) {
                out.push(a);
                continue;
            }
        }
        if let Some(mut a) = field_attr_for(rng, tr, idx, named) {
            // two parameters in one request: any pair the parser accepts for this trait
            // (`Ord(rank = 3, method(cmp))`, `Ord(ignore, rank = 2)`, `Debug(name(x), method(f))`, ...)
            if rng.chance(1, 6) && a.ends_with(')') {
                let mut cands: Vec<String> = vec![];
                match *tr {
                    "Ord" | "PartialOrd" => {
                        cands.push("ignore".to_string());
                        cands.push(format!("rank = {}", 100 + idx));
                        cands.push(format!("method({})", method_path(rng, "cmp")));
                    },
                    "Debug" => {
                        cands.push("ignore".to_string());
                        if named {
                            cands.push(format!("name(shown{idx})"));
                        }
                        cands.push(format!("method({})", method_path(rng, "fmt")));
                    },
                    "PartialEq" | "Hash" => {
                        cands.push("ignore".to_string());
                        cands.push(format!("method({})", method_path(rng, "eq")));
                    },
                    _ => {},
                }
                // keep only parameters of a kind the request does not have yet
                cands.retain(|c| {
                    let key = c.split(['(', ' ', '=']).next().unwrap_or("");
                    !a.contains(key)
                });
                if !cands.is_empty() {
                    let e = cands[rng.usize(cands.len())].clone();
                    let pos = a.rfind(')').unwrap();
                    if rng.chance(1, 2) {
                        a.insert_str(pos, &format!(", {e}"));
                    } else {
                        // the extra parameter first
                        let open = a.find('(').unwrap();
                        a.insert_str(open + 1, &format!("{e}, "));
                    }
                }
            }
            if rng.chance(1, 7) {
                a = respell(rng, &a);
            }
            out.push(a);
        }
    }
    out
}

fn gen_fields(rng: &mut Rng, g: &Generics, named: bool, n: usize, traits: &[&str], rich: bool, default_ok: bool) -> Vec<Field> {
    let mut v: Vec<Field> = vec![];
    for i in 0..n {
        // repeated field types are common in real code and matter for de-duplicating helpers
        let ty = if i > 0 && rng.chance(1, 3) { v[rng.usize(i)].ty.clone() } else { gen_type(rng, g, 0) };
        let attrs = gen_field_attrs(rng, traits, i, rich, named, default_ok);
        let mut fname = format!("f{i}");
        if named && rng.chance(1, 30) {
            fname = match rng.below(4) {
                0 => format!("r#type{}", if i == 0 { "".to_string() } else { i.to_string() }).replace("r#type1", "r#match").replace("r#type2", "r#fn").replace("r#type3", "r#struct"),
                1 => format!("caf\u{e9}{i}"),
                2 => format!("\u{540d}\u{524d}{i}"),
                _ => format!("a_very_long_field_name_that_goes_on_and_on_and_on_{i}"),
            };
            if fname.starts_with("r#") && fname.chars().last().map(|c| c.is_ascii_digit()).unwrap_or(false) {
                fname = format!("r#loop");
            }
            if v.iter().any(|f: &Field| f.name.as_deref() == Some(fname.as_str())) {
                fname = format!("f{i}");
            }
        } else if named && rng.chance(1, 8) {
            if let Some(n) = template_lower(rng) {
                if !v.iter().any(|f: &Field| f.name.as_deref() == Some(n)) {
                    fname = n.to_string();
                }
            }
        }
        v.push(Field { name: if named { Some(fname) } else { None }, ty, attrs });
    }
    v
}

fn render_attr_list(rng: &mut Rng, frags: &[String], indent: &str) -> String {
    // spread fragments over 1..k `#[educe(..)]` attributes
    let mut s = String::new();
    let mut i = 0;
    while i < frags.len() {
        if let Some(raw) = frags[i].strip_prefix('\u{2}') {
            // a syntactically broken attribute: always on its own
            s.push_str(&format!("{indent}#[educe({raw})]\n"));
            i += 1;
            continue;
        }
        // other people's attributes and doc comments in between (they are input tokens too)
        if rng.chance(1, 8) {
            s.push_str(&format!(
                "{indent}{}\n",
rng.pick(&[
                    "/// documented",
                    "#[doc = \"also documented\"]",
                    "#[allow(dead_code)]",
                    "#[allow(dead_code, deprecated, non_camel_case_types, clippy::large_enum_variant)]",
                    "#[deny(missing_docs, unused_variables)]",
                    "#[cfg_attr(test, allow(unused))]",
                    "#[cfg_attr(feature = \"serde\", derive(Serialize), serde(rename_all = \"camelCase\", deny_unknown_fields))]",
                    "#[serde(rename = \"x\", default, skip_serializing_if = \"Option::is_none\")]",
                    "#[doc(hidden)]",
                    "#[doc(alias = \"a\", alias = \"b\")]",
                    "#[must_use = \"why\"]",
                    "#[non_exhaustive]",
                    "#[warn(clippy::all, clippy::pedantic)]",
                ])
            ));
        }
        let mut take = if rng.chance(1, 3) { 1 } else { rng.range(1, (frags.len() - i) as u64) as usize };
        if let Some(k) = frags[i..i + take].iter().position(|f| f.starts_with('\u{2}')) {
            take = k.max(1);
        }
        s.push_str(&format!("{indent}#[educe({})]\n", frags[i..i + take].join(", ")));
        i += take;
    }
    s
}

fn render_fields(rng: &mut Rng, fields: &[Field], named: bool, indent: &str) -> String {
    let mut s = String::new();
    for f in fields {
        s.push_str(&render_attr_list(rng, &f.attrs, indent));
        match (&f.name, named) {
            (Some(n), true) => s.push_str(&format!("{indent}{n}: {},\n", f.ty)),
            _ => s.push_str(&format!("{indent}{},\n", f.ty)),
        }
    }
    s
}

fn pick_traits(rng: &mut Rng, kind: Kind, wide: bool) -> Vec<&'static str> {
    let mut chosen: Vec<&'static str> = vec![];
    let want = if wide { rng.range(3, 9) } else { rng.range(1, 4) } as usize;
    let mut pool: Vec<&'static str> = TRAITS.to_vec();
    if kind == Kind::Union {
        pool.retain(|t| !matches!(*t, "PartialOrd" | "Ord" | "Deref" | "DerefMut" | "Into"));
    }
    rng.shuffle(&mut pool);
    for t in pool.into_iter().take(want) {
        chosen.push(t);
    }
    if chosen.contains(&"Copy") && !chosen.contains(&"Clone") && rng.chance(3, 4) {
        chosen.push("Clone");
    }
    if chosen.contains(&"DerefMut") && !chosen.contains(&"Deref") && rng.chance(3, 4) {
        chosen.push("Deref");
    }
    chosen
}

pub struct GenOpts {
    /// probability (percent) of injecting faults
    pub error_pct: u64,
    /// force an Into-heavy input
    pub into_heavy: bool,
}

/// Deref / DerefMut / Into markers on fields (valid placement).
fn decorate_markers(rng: &mut Rng, fields: &mut [Field], traits: &[&str], into_targets: &[String]) {
    if fields.is_empty() {
        return;
    }
    if traits.contains(&"Deref") && (fields.len() > 1 || rng.chance(1, 3)) {
        let k = rng.usize(fields.len());
        fields[k].attrs.push("Deref".to_string());
    }
    if traits.contains(&"DerefMut") && (fields.len() > 1 || rng.chance(1, 3)) {
        let k = rng.usize(fields.len());
        fields[k].attrs.push("DerefMut".to_string());
    }
    if traits.contains(&"Into") {
        for t in into_targets {
            if fields.len() == 1 && rng.chance(1, 2) {
                continue; // single field: implicit
            }
            let k = rng.usize(fields.len());
            let frag = if rng.chance(1, 3) {
                format!("Into({t}, method({}))", method_path(rng, "into"))
            } else {
                format!("Into({t})")
            };
            fields[k].attrs.push(frag);
        }
    }
}

fn build_model(rng: &mut Rng, name: &str, opts: &GenOpts) -> Model {
    let kind = match rng.below(100) {
        0..=34 => Kind::StructNamed,
        35..=49 => Kind::StructTuple,
        50..=52 => Kind::StructUnit,
        53..=92 => Kind::Enum,
        _ => Kind::Union,
    };
    let kind = if opts.into_heavy && matches!(kind, Kind::Union | Kind::StructUnit) { Kind::StructNamed } else { kind };
    let wide = rng.chance(3, 4);
    let big = rng.chance(1, 25);
    let mut g = gen_generics(rng, wide && kind != Kind::Union);
    if big && kind != Kind::Union && rng.chance(1, 2) {
        // more than 8 generic parameters
        let extra = ["A", "B", "C", "D", "E", "F", "G", "P", "Q", "R", "S", "W"];
        let n = rng.range(7, 12) as usize;
        let mut parts: Vec<String> = g.lifetimes.iter().map(|l| l.to_string()).collect();
        for e in extra.iter().take(n) {
            if !g.types.contains(e) {
                g.types.push(e);
            }
        }
        for t in &g.types {
            parts.push(t.to_string());
        }
        for c in &g.consts {
            parts.push(format!("const {c}: usize"));
        }
        g.decl = format!("<{}>", parts.join(", "));
    }
    let mut traits = pick_traits(rng, kind, wide);
    if opts.into_heavy && !traits.contains(&"Into") {
        traits.push("Into");
    }
    let rich = rng.chance(1, 2);

    // ---------------- type-level fragments
    let mut type_frags: Vec<String> = vec![];
    let mut into_targets: Vec<String> = vec![];
    for tr in &traits {
        let mut params: Vec<String> = vec![];
        match *tr {
            "Debug" => {
                match rng.below(8) {
                    0 => params.push(format!("name({name}Renamed)")),
                    1 if kind != Kind::StructUnit && kind != Kind::Union => params.push("name = false".to_string()),
                    2 if kind == Kind::Enum => params.push("name = true".to_string()),
                    _ => {},
                }
                match rng.below(6) {
                    0 if matches!(kind, Kind::StructNamed | Kind::StructTuple) => params.push("named_field = false".to_string()),
                    1 if matches!(kind, Kind::StructNamed | Kind::StructTuple) => params.push("named_field = true".to_string()),
                    _ => {},
                }
                if kind == Kind::Union {
                    params.push("unsafe".to_string());
                }
            },
            "PartialEq" | "Hash" if kind == Kind::Union => params.push("unsafe".to_string()),
            "Default" => {
                if rng.chance(1, 3) {
                    params.push("new".to_string());
                }
            },
            "Into" => {
                let n = if opts.into_heavy || wide { rng.range(2, 6) } else { rng.range(1, 3) } as usize;
                let mut pool: Vec<String> = INTO_TARGETS.iter().map(|s| s.to_string()).collect();
                for t in &g.types {
                    pool.push(t.to_string());
                    pool.push(format!("Vec<{t}>"));
                }
                rng.shuffle(&mut pool);
                into_targets = pool.into_iter().take(n).collect();
            },
            _ => {},
        }
        if *tr == "Into" {
            for t in &into_targets {
                let mut p = vec![t.clone()];
                if let Some(b) = gen_bound(rng, &g, tr) {
                    p.push(b);
                }
                type_frags.push(format!("Into({})", p.join(", ")));
            }
            continue;
        }
        let bound_ok = match *tr {
            "Deref" | "DerefMut" => false,
            "Copy" => !traits.contains(&"Clone"),
            "Eq" => !traits.contains(&"PartialEq"),
            "PartialOrd" => !traits.contains(&"Ord"),
            "Debug" | "PartialEq" | "Hash" if kind == Kind::Union => false,
            _ => true,
        };
        if bound_ok {
            if let Some(b) = gen_bound(rng, &g, tr) {
                params.push(b);
            }
        }
        if rng.chance(1, 80) {
            if let Some(w) = if rng.chance(3, 4) { param_word(rng).or_else(|| template_lower(rng)) } else { template_lower(rng) } {
                params.push(match rng.below(3) {
                    0 => w.to_string(),
                    1 => format!("{w} = {}", rng.pick(&["true", "false", "1", "\"text\"", "Name"])),
                    _ => format!("{w}(Name)"),
                });
            }
        }
        if params.is_empty() {
            type_frags.push(tr.to_string());
        } else {
            let f = format!("{tr}({})", params.join(", "));
            type_frags.push(if rng.chance(1, 8) { respell(rng, &f) } else { f });
        }
    }

    // ---------------- body
    let mut fields: Vec<Field> = vec![];
    let mut variants: Vec<Variant> = vec![];
    match kind {
        Kind::StructUnit => {},
        Kind::StructNamed | Kind::StructTuple | Kind::Union => {
            let named = kind != Kind::StructTuple;
            let n = if big && kind != Kind::Union {
                *rng.pick(&[33u64, 40, 65, 101, 130])
            } else if rng.chance(1, 25) {
                rng.range(13, 18)
            } else if wide {
                rng.range(2, 8)
            } else {
                rng.range(1, 3)
            } as usize;
            fields = gen_fields(rng, &g, named, n, &traits, rich, true);
            if kind == Kind::Union {
                for f in fields.iter_mut() {
                    f.ty = rng.pick(&["u8", "u16", "u32", "u64", "f32", "[u8; 8]"]).to_string();
                    f.attrs.retain(|a| a.starts_with("Default"));
                }
                if traits.contains(&"Default") {
                    let k = rng.usize(fields.len());
                    if !fields[k].attrs.iter().any(|a| a.starts_with("Default")) {
                        fields[k].attrs.push("Default".to_string());
                    }
                    for (i, f) in fields.iter_mut().enumerate() {
                        if i != k {
                            f.attrs.retain(|a| !a.starts_with("Default"));
                        }
                    }
                }
            }
            decorate_markers(rng, &mut fields, &traits, &into_targets);
        },
        Kind::Enum => {
            // "table" enums: many unit variants (cheap to expand, common in generated code)
            let table = !big && rng.chance(1, 6);
            if table {
                // C-like: no field-designating traits (they cannot apply to unit variants)
                let before = traits.len();
                traits.retain(|t| !matches!(*t, "Deref" | "DerefMut" | "Into"));
                if traits.len() != before {
                    type_frags.retain(|f| !(f.starts_with("Deref") || f.starts_with("Into")));
                }
                if traits.is_empty() {
                    traits.push("Ord");
                    type_frags.push("Ord".to_string());
                }
            }
            let nv = if big {
                *rng.pick(&[17u64, 65, 70, 130, 257, 300])
            } else if table {
                *rng.pick(&[33u64, 64, 65, 100, 129, 256, 257])
            } else if wide {
                rng.range(2, 6)
            } else {
                rng.range(1, 3)
            } as usize;
            let default_variant = rng.usize(nv);
            // (C-like table enums usually spell their values out)
            let with_disc = if table { rng.chance(1, 2) } else { rng.chance(1, 4) };
            let no_unit = traits.iter().any(|t| matches!(*t, "Deref" | "DerefMut" | "Into"));
            for vi in 0..nv {
                let shape = match if table && !no_unit { 0 } else if no_unit { rng.range(1, 2) } else { rng.below(3) } {
                    0 => Shape::Unit,
                    1 => Shape::Tuple,
                    _ => Shape::Named,
                };
                let is_default = vi == default_variant;
                let mut vattrs: Vec<String> = vec![];
                if traits.contains(&"Debug") && rng.chance(1, 4) {
                    vattrs.push(match rng.below(3) {
                        1 if shape != Shape::Unit => "Debug(name = false)".to_string(),
                        2 if shape != Shape::Unit => format!("Debug(named_field = {})", rng.chance(1, 2)),
                        _ => format!("Debug(name(Variant{vi}Renamed))"),
                    });
                }
                if traits.contains(&"Default") && is_default {
                    vattrs.push("Default".to_string());
                }
                let mut vfields = vec![];
                if shape != Shape::Unit {
                    let n = rng.range(1, 4) as usize;
                    vfields = gen_fields(rng, &g, shape == Shape::Named, n, &traits, rich, is_default);
                    decorate_markers(rng, &mut vfields, &traits, &into_targets);
                }
                variants.push(Variant {
                    name: format!("V{vi}"),
                    attrs: vattrs,
                    shape,
                    fields: vfields,
                    disc: if with_disc && shape == Shape::Unit {
                        Some(match if big { rng.below(3) } else { 3 + rng.below(6) } {
                            0 => i64::MIN + 1 + vi as i64,
                            1 => i64::MAX - 400 + vi as i64,
                            2 => (1i64 << 40) + vi as i64,
                            3 => -128 + vi as i64,
                            4 => 0x7fff_fff0 + vi as i64,
                            _ => (vi as i64) * 3 - 2,
                        })
                    } else {
                        None
                    },
                });
            }
        },
    }
    let repr = if kind == Kind::Enum && rng.chance(1, 5) { Some(*rng.pick(&["u8", "i32", "u64", "C"])) } else { None };
    let vis = *rng.pick(&["", "pub ", "pub(crate) "]);
    // big inputs: ranks at the ends of the isize range, very long names, deep types, odd literals
    if big {
        let mut k = 0i64;
        let mut all: Vec<&mut Field> = fields.iter_mut().collect();
        for v in variants.iter_mut() {
            all.extend(v.fields.iter_mut());
        }
        for f in all {
            for a in f.attrs.iter_mut() {
                if let Some(i) = a.find("rank = ") {
                    let tail = &a[i + 7..];
                    let end = tail.find([',', ')']).unwrap_or(tail.len());
                    let v = match k % 4 {
                        0 => format!("{}", i64::MIN + k),
                        1 => format!("{}", i64::MAX - k),
                        2 => format!("{}", -1 - k),
                        _ => format!("{}", (1i64 << 62) + k),
                    };
                    a.replace_range(i + 7..i + 7 + end, &v);
                    k += 1;
                }
                if a.starts_with("Default = ") && k % 2 == 0 {
                    *a = (*rng.pick(&["Default = 0xFFu8", "Default = 1_000_000_000_000i64", "Default = 0b1010_1010", "Default = 1e10", "Default = 0o777u32"])).to_string();
                }
            }
            if rng.chance(1, 10) {
                // depth > 16
                let mut t = f.ty.clone();
                for _ in 0..rng.range(17, 24) {
                    t = format!("Option<{t}>");
                }
                f.ty = t;
            }
            if f.name.is_some() && rng.chance(1, 10) {
                f.name = Some(format!("{}_{}", "an_identifier_that_is_much_longer_than_sixty_four_characters_in_total", k));
                k += 1;
            }
        }
        // a bound list far longer than 256 bytes
        if !g.types.is_empty() && rng.chance(1, 2) {
            if let Some(fr) = type_frags.iter_mut().find(|f| !f.contains('(') && !matches!(f.as_str(), "Deref" | "DerefMut" | "Copy" | "Eq")) {
                let preds: Vec<String> = (0..24).map(|i| format!("{}: ::core::marker::Sized + ::core::marker::Send + 'static", g.types[i % g.types.len()])).collect();
                *fr = format!("{fr}(bound({}))", preds.join(", "));
            }
        }
    }
    let derive_line = match rng.below(8) {
        0 => "#[derive(Educe, Copy)]".to_string(),
        1 => "#[derive(PartialEq, Educe)]".to_string(),
        2 => "#[derive(Clone, Educe, Debug)]".to_string(),
        3 => "#[derive(educe::Educe)]".to_string(),
        _ => "#[derive(Educe)]".to_string(),
    };
    let derive_last = rng.chance(1, 6);
    Model { big, derive_line, derive_last, kind, name: name.to_string(), g, traits, type_frags, into_targets, fields, variants, repr, vis }
}

fn render(rng: &mut Rng, m: &Model) -> String {
    let mut s = String::new();
    let _ = m.big;
    if !m.derive_last {
        s.push_str(&m.derive_line);
        s.push('\n');
    }
    if let Some(r) = m.repr {
        s.push_str(&format!("#[repr({r})]\n"));
    }
    s.push_str(&render_attr_list(rng, &m.type_frags, ""));
    if m.derive_last {
        s.push_str(&m.derive_line);
        s.push('\n');
    }
    let (name, vis, g) = (&m.name, m.vis, &m.g);
    match m.kind {
        Kind::StructUnit => s.push_str(&format!("{vis}struct {name}{}{};\n", g.decl, g.where_clause)),
        Kind::StructTuple => s.push_str(&format!(
            "{vis}struct {name}{}(\n{}){};\n",
            g.decl,
            render_fields(rng, &m.fields, false, "    "),
            g.where_clause
        )),
        Kind::StructNamed | Kind::Union => s.push_str(&format!(
            "{vis}{} {name}{}{} {{\n{}}}\n",
            if m.kind == Kind::Union { "union" } else { "struct" },
            g.decl,
            g.where_clause,
            render_fields(rng, &m.fields, true, "    ")
        )),
        Kind::Enum => {
            let mut vs = String::new();
            for v in &m.variants {
                vs.push_str(&render_attr_list(rng, &v.attrs, "    "));
                match v.shape {
                    Shape::Unit => match v.disc {
                        Some(d) => vs.push_str(&format!("    {} = {d},\n", v.name)),
                        None => vs.push_str(&format!("    {},\n", v.name)),
                    },
                    Shape::Tuple => {
                        vs.push_str(&format!("    {}(\n{}    ),\n", v.name, render_fields(rng, &v.fields, false, "        ")))
                    },
                    Shape::Named => {
                        vs.push_str(&format!("    {} {{\n{}    }},\n", v.name, render_fields(rng, &v.fields, true, "        ")))
                    },
                }
            }
            s.push_str(&format!("{vis}enum {name}{}{} {{\n{vs}}}\n", g.decl, g.where_clause));
        },
    }
    s
}

// ------------------------------------------------------------------ faults

pub const FAULT_CLASSES: [&str; 18] = [
    "attr_syntax",
    "repeated_traits",
    "unsupported_traits",
    "trait_not_used",
    "union_unsupported",
    "unit_variant_unsupported",
    "parameter_reset",
    "repeated_rank",
    "repeated_into_type",
    "into_field_problems",
    "undeclared_into_targets",
    "default_marker_problems",
    "deref_marker_problems",
    "union_without_unsafe",
    "incorrect_format",
    "incorrect_place",
    "need_name",
    "educe_format",
];

/// every field of the model (struct fields and fields of all variants)
fn all_fields(m: &mut Model) -> Vec<&mut Field> {
    let mut v: Vec<&mut Field> = m.fields.iter_mut().collect();
    for var in m.variants.iter_mut() {
        v.extend(var.fields.iter_mut());
    }
    v
}

fn some_fields<'a>(rng: &mut Rng, m: &'a mut Model, want: usize) -> Vec<&'a mut Field> {
    let mut fs = all_fields(m);
    let n = fs.len();
    if n == 0 {
        return vec![];
    }
    // choose `want` distinct positions
    let mut idx: Vec<usize> = (0..n).collect();
    rng.shuffle(&mut idx);
    idx.truncate(want.min(n));
    idx.sort();
    let mut out = vec![];
    for (k, f) in fs.drain(..).enumerate() {
        if idx.contains(&k) {
            out.push(f);
        }
    }
    out
}

/// A misspelling of `word`: adjacent letters swapped, a letter dropped or doubled, or a suffix added.
fn typo(rng: &mut Rng, word: &str) -> String {
    let mut c: Vec<char> = word.chars().collect();
    if c.len() < 3 {
        return format!("{word}x");
    }
    match rng.below(5) {
        0 => {
            let i = rng.range(1, (c.len() - 2) as u64) as usize;
            c.swap(i, i + 1);
        },
        1 => {
            let i = rng.range(1, (c.len() - 1) as u64) as usize;
            c.remove(i);
        },
        2 => {
            let i = rng.usize(c.len());
            let ch = c[i];
            c.insert(i, ch);
        },
        3 => {
            return format!("{word}{}", rng.pick(&["ing", "able", "s", "Trait", "ering"]));
        },
        _ => {
            let i = rng.range(1, (c.len() - 1) as u64) as usize;
            c[i] = if c[i] == 'e' { 'a' } else { 'e' };
        },
    }
    let out: String = c.into_iter().collect();
    if out == word {
        format!("{word}x")
    } else {
        out
    }
}

fn inject(rng: &mut Rng, m: &mut Model, class: &str) {
    // how many independent instances of this fault
    let k = if rng.chance(3, 4) { rng.range(2, 4) } else { 1 } as usize;
    match class {
        "repeated_traits" => {
            let mut cands: Vec<String> = m.type_frags.iter().filter(|f| !f.starts_with("Into")).cloned().collect();
            rng.shuffle(&mut cands);
            for f in cands.into_iter().take(k) {
                // repeat as a bare trait name or verbatim
                let bare = f.split(['(', ' ', '=']).next().unwrap_or("Debug").to_string();
                m.type_frags.push(if rng.chance(1, 2) { bare } else { f });
            }
        },
        "unsupported_traits" => {
            // unknown names: other crates' traits, and misspellings of the supported ones
            let mut names: Vec<String> = ["Serialize", "Display", "Foo", "Send", "FromStr", "std::fmt::Binary"].iter().map(|s| s.to_string()).collect();
            for _ in 0..4 {
                let t = *rng.pick(&TRAITS);
                names.push(typo(rng, t));
            }
            for _ in 0..2 {
                if let Some(u) = template_upper(rng) {
                    names.push(u.to_string());
                }
            }
            rng.shuffle(&mut names);
            for n in names.into_iter().take(k) {
                if rng.chance(2, 3) {
                    m.type_frags.push(n.clone());
                } else if let Some(f) = some_fields(rng, m, 1).pop() {
                    f.attrs.push(n.clone());
                } else {
                    m.type_frags.push(n.clone());
                }
            }
        },
        "trait_not_used" => {
            let unused: Vec<&'static str> = TRAITS.iter().copied().filter(|t| !m.traits.contains(t) && !matches!(*t, "Copy" | "Eq" | "Deref" | "DerefMut" | "Into")).collect();
            if unused.is_empty() {
                return;
            }
            let trs: Vec<&'static str> = (0..k).map(|_| *rng.pick(&unused)).collect();
            for (i, f) in some_fields(rng, m, k).into_iter().enumerate() {
                let named = f.name.is_some();
                if let Some(a) = field_attr_for(rng, trs[i % trs.len()], i, named) {
                    f.attrs.push(a);
                }
            }
            if rng.chance(1, 3) {
                if let Some(v) = m.variants.first_mut() {
                    v.attrs.push(format!("{}(name(X))", trs[0]));
                }
            }
        },
        "union_unsupported" => {
            // a union asked for traits unions cannot have
            if !matches!(m.kind, Kind::StructNamed | Kind::Union) || m.fields.is_empty() {
                return;
            }
            m.kind = Kind::Union;
            let mut bad = vec!["PartialOrd", "Ord", "Deref", "DerefMut", "Into(u8)"];
            rng.shuffle(&mut bad);
            for b in bad.into_iter().take(k.max(2)) {
                if !m.type_frags.iter().any(|f| f.starts_with(b.split('(').next().unwrap())) {
                    m.type_frags.push(b.to_string());
                }
            }
        },
        "unit_variant_unsupported" => {
            if m.kind != Kind::Enum {
                return;
            }
            for i in 0..k {
                m.variants.push(Variant { name: format!("Unit{i}"), attrs: vec![], shape: Shape::Unit, fields: vec![], disc: None });
            }
            for b in ["Deref", "DerefMut", "Into(u16)"].iter().take(k.max(2)) {
                if !m.type_frags.iter().any(|f| f.starts_with(b.split('(').next().unwrap())) {
                    m.type_frags.push(b.to_string());
                }
            }
        },
        "parameter_reset" => {
            for _ in 0..k {
                match rng.below(5) {
                    0 => m.type_frags.push("Debug(name = false, name(Twice))".to_string()),
                    1 => m.type_frags.push("Clone(bound(*), bound = false)".to_string()),
                    2 => m.type_frags.push("Default(new, new)".to_string()),
                    3 => {
                        if let Some(f) = some_fields(rng, m, 1).pop() {
                            f.attrs.push("Ord(rank = 1, rank = 2)".to_string());
                        }
                    },
                    _ => {
                        if let Some(f) = some_fields(rng, m, 1).pop() {
                            f.attrs.push("Hash(method(a), method(b))".to_string());
                        }
                    },
                }
            }
        },
        "repeated_rank" => {
            for tr in ["PartialOrd", "Ord"] {
                if !m.type_frags.iter().any(|f| f.split(['(', ' ']).next() == Some(tr)) && rng.chance(1, 2) {
                    m.type_frags.push(tr.to_string());
                }
            }
            let r1 = rng.below(5) as i64;
            let r2 = r1 + 1;
            for (i, f) in some_fields(rng, m, (2 * k).max(2)).into_iter().enumerate() {
                let r = if i % 4 < 2 { r1 } else { r2 };
                f.attrs.retain(|a| !a.starts_with("Ord") && !a.starts_with("PartialOrd"));
                f.attrs.push(format!("{}(rank = {r})", if rng.chance(1, 2) { "Ord" } else { "PartialOrd" }));
            }
        },
        "repeated_into_type" => {
            let mut ts = vec!["u8", "u16", "String", "Vec<u8>", "i64"];
            rng.shuffle(&mut ts);
            for t in ts.into_iter().take(k) {
                m.type_frags.push(format!("Into({t})"));
                m.type_frags.push(format!("Into({t})"));
            }
        },
        "into_field_problems" => {
            // several targets; some claimed by two fields, some by none
            let mut ts = vec!["u8", "u16", "u32", "i8", "i16", "String"];
            rng.shuffle(&mut ts);
            let ts: Vec<&str> = ts.into_iter().take(k.max(2)).collect();
            for t in &ts {
                if !m.type_frags.iter().any(|f| f.starts_with(&format!("Into({t}"))) {
                    m.type_frags.push(format!("Into({t})"));
                }
            }
            if rng.chance(1, 2) {
                let t0 = ts[0].to_string();
                let t1 = ts[ts.len() - 1].to_string();
                for (i, f) in some_fields(rng, m, 4).into_iter().enumerate() {
                    f.attrs.push(format!("Into({})", if i % 2 == 0 { &t0 } else { &t1 }));
                }
            }
        },
        "undeclared_into_targets" => {
            if !m.type_frags.iter().any(|f| f.starts_with("Into")) {
                m.type_frags.push("Into(u8)".to_string());
            }
            let mut extra = vec!["i8", "isize", "u128x", "Box<str>", "Vec<u8>", "char", "bool"];
            rng.shuffle(&mut extra);
            let n = k.max(2);
            if let Some(f) = some_fields(rng, m, 1).pop() {
                for e in extra.iter().take(n) {
                    f.attrs.push(format!("Into({e})"));
                }
            }
        },
        "default_marker_problems" => {
            if !m.type_frags.iter().any(|f| f.starts_with("Default")) {
                m.type_frags.push("Default".to_string());
            }
            match m.kind {
                Kind::Enum => {
                    if rng.chance(1, 2) {
                        for v in m.variants.iter_mut() {
                            v.attrs.retain(|a| a != "Default");
                        }
                    } else {
                        for v in m.variants.iter_mut() {
                            if !v.attrs.iter().any(|a| a == "Default") {
                                v.attrs.push("Default".to_string());
                            }
                        }
                    }
                },
                Kind::Union => {
                    if rng.chance(1, 2) {
                        for f in m.fields.iter_mut() {
                            f.attrs.retain(|a| !a.starts_with("Default"));
                        }
                    } else {
                        for f in m.fields.iter_mut() {
                            if !f.attrs.iter().any(|a| a.starts_with("Default")) {
                                f.attrs.push("Default".to_string());
                            }
                        }
                    }
                },
                _ => {
                    m.type_frags.push("Default(expression = Self::make(), new)".to_string());
                },
            }
        },
        "deref_marker_problems" => {
            for tr in ["Deref", "DerefMut"] {
                if !m.type_frags.iter().any(|f| f == tr) {
                    m.type_frags.push(tr.to_string());
                }
            }
            let all = rng.chance(1, 2);
            for f in all_fields(m) {
                f.attrs.retain(|a| a != "Deref" && a != "DerefMut");
                if all {
                    f.attrs.push("Deref".to_string());
                    f.attrs.push("DerefMut".to_string());
                }
            }
        },
        "union_without_unsafe" => {
            if !matches!(m.kind, Kind::StructNamed | Kind::Union) || m.fields.is_empty() {
                return;
            }
            m.kind = Kind::Union;
            m.type_frags.retain(|f| !f.starts_with("Debug") && !f.starts_with("PartialEq") && !f.starts_with("Hash"));
            let mut need = vec!["Debug", "PartialEq", "Hash", "Debug(name(U))", "Hash()", "PartialEq()"];
            rng.shuffle(&mut need);
            let mut seen: Vec<&str> = vec![];
            for n in need {
                let base = n.split('(').next().unwrap();
                if !seen.contains(&base) && seen.len() < k.max(2) {
                    seen.push(base);
                    m.type_frags.push(n.to_string());
                }
            }
        },
        "incorrect_format" => {
            let mut bad: Vec<String> = [
                "Clone = 1", "Hash()", "Debug(nme = false)", "Default(expression)", "PartialOrd(rank = 1)",
                "Eq(ignore)", "Copy = false", "Ord(method)", "PartialEq(bound)", "Into", "Into = u8", "Deref(x)",
                "Debug(name)", "Debug(named_field = 3)", "Default = ", "Hash(bound(T))",
            ]
            .iter()
            .map(|s| s.to_string())
            .collect();
            // misspelled parameter names
            for (tr, param, rest) in [("Debug", "name", " = false"), ("Ord", "rank", " = 1"), ("Hash", "ignore", ""), ("Clone", "method", "(f)"), ("Default", "expression", " = 1"), ("PartialEq", "bound", "(*)")] {
                if rng.chance(1, 2) {
                    bad.push(format!("{tr}({}{rest})", typo(rng, param)));
                }
            }
            rng.shuffle(&mut bad);
            for b in bad.into_iter().take(k) {
                if b == "Default = " {
                    continue;
                }
                if rng.chance(2, 3) {
                    m.type_frags.push(b.to_string());
                } else if let Some(f) = some_fields(rng, m, 1).pop() {
                    f.attrs.push(b.to_string());
                }
            }
        },
        "incorrect_place" => {
            let n = k;
            let frags = ["Copy", "Eq", "Clone", "Debug(bound(*))", "Default(new)", "Deref", "Into(u8, bound(*))"];
            for f in some_fields(rng, m, n) {
                f.attrs.push(rng.pick(&frags).to_string());
            }
            if let Some(v) = m.variants.last_mut() {
                v.attrs.push(rng.pick(&["Copy", "Eq", "Hash(ignore)", "Clone(bound(*))"]).to_string());
            }
        },
        "need_name" => {
            m.type_frags.retain(|f| !f.starts_with("Debug"));
            m.type_frags.push("Debug(name = false)".to_string());
            match m.kind {
                Kind::Enum => {
                    for i in 0..k {
                        m.variants.push(Variant { name: format!("Bare{i}"), attrs: vec![], shape: Shape::Unit, fields: vec![], disc: None });
                    }
                },
                _ => {
                    m.kind = Kind::StructUnit;
                    m.fields.clear();
                },
            }
        },
        "attr_syntax" => {
            // an `#[educe(..)]` attribute whose argument list does not even parse — as one of
            // several attributes of the item (or of a field), so that the others are fine
            let broken = [
                "Debug Clone", "Debug,, Clone", "PartialEq Eq", "Debug(name = )", "=", "Debug(bound(T:))", "Clone(())", "Hash(ignore,,)",
                "Into(u8 u16)", "Default(expression = )", "Ord(rank = = 1)", "Debug; Clone", "Debug(name(a b))", "'a",
            ];
            let b = format!("\u{2}{}", rng.pick(&broken));
            if rng.chance(3, 4) {
                // not the first attribute: something valid comes before it
                let pos = if m.type_frags.is_empty() { 0 } else { rng.range(1, m.type_frags.len() as u64) as usize };
                m.type_frags.insert(pos, b);
            } else if let Some(f) = some_fields(rng, m, 1).pop() {
                f.attrs.push(b);
            } else {
                m.type_frags.push(b);
            }
        },
        "educe_format" => {
            // handled at render time through a marker fragment
            m.type_frags.push("\u{1}educe_format".to_string());
        },
        _ => {},
    }
}

/// Generate one derive input as source text. `name` becomes the type identifier.
pub fn generate(rng: &mut Rng, name: &str, opts: &GenOpts) -> String {
    generate_ex(rng, name, opts, &[]).0
}

/// As `generate`; `force` = fault classes that must be injected (an *error sibling* of another
/// input: the same kind of mistake made again, differently). Returns the classes injected.
pub fn generate_ex(rng: &mut Rng, name: &str, opts: &GenOpts, force: &[&'static str]) -> (String, Vec<&'static str>) {
    let mut m = build_model(rng, name, opts);
    let mut classes: Vec<&'static str> = force.to_vec();
    if !force.is_empty() || rng.chance(opts.error_pct, 100) {
        let n = if force.is_empty() { rng.range(1, 3) } else { rng.below(2) };
        for _ in 0..n {
            classes.push(*rng.pick(&FAULT_CLASSES));
        }
        for c in &classes {
            inject(rng, &mut m, c);
        }
        if rng.chance(1, 2) {
            rng.shuffle(&mut m.type_frags);
        }
    }
    let malformed = m.type_frags.iter().any(|f| f.starts_with('\u{1}'));
    m.type_frags.retain(|f| !f.starts_with('\u{1}'));
    let mut s = render(rng, &m);
    if malformed {
        // `#[educe = ..]` / bare `#[educe]` instead of a list
        let extra = *rng.pick(&["#[educe]\n", "#[educe = \"Debug\"]\n", "#[educe()]\n"]);
        s = format!("{extra}{s}");
    }
    (s, classes)
}

/// A polluter that reuses `name` with a different body: defeats any cache keyed by identifier.
pub fn same_name_variant(rng: &mut Rng, name: &str) -> String {
    let opts = GenOpts { error_pct: 10, into_heavy: rng.chance(1, 2) };
    generate(rng, name, &opts)
}

/// small pool of type names shared between inputs (collisions on purpose)
pub fn shared_type_name(rng: &mut Rng) -> String {
    rng.pick(&["Struct", "Enum", "Item", "Node", "Config", "G0", "G1", "G2"]).to_string()
}

/// "The user edited the item and it is expanded again" — a polluter that keeps the target's name,
/// its field / variant names and most of its tokens, and changes one or two details: discriminant
/// values, a field type, a literal, `#[repr]`, the order of two fields or variants, one requested
/// trait. Anything memoised under a key that does not cover the whole input is exposed.
pub fn edited_copy(rng: &mut Rng, text: &str) -> Option<String> {
    use quote::ToTokens;
    let ts: proc_macro2::TokenStream = text.parse().ok()?;
    let mut di: syn::DeriveInput = syn::parse2(ts).ok()?;
    let n_edits = rng.range(1, 2);
    let mut done = 0;
    for _ in 0..8 {
        if done >= n_edits {
            break;
        }
        // enums: discriminant edits are the commonest real edit and get extra weight
        let choice = if matches!(di.data, syn::Data::Enum(_)) && rng.chance(1, 3) { 0 } else { rng.below(10) };
        match (&mut di.data, choice) {
            (syn::Data::Enum(e), 0) if !e.variants.is_empty() => {
                // new discriminant values on the unit variants (other magnitudes)
                let base: i64 = *rng.pick(&[0i64, 100, 200, -129, 40_000, 3_000_000_000]);
                let mut any = false;
                for (i, v) in e.variants.iter_mut().enumerate() {
                    if matches!(v.fields, syn::Fields::Unit) {
                        let val = proc_macro2::Literal::i64_unsuffixed(base + 7 * i as i64);
                        v.discriminant = Some((Default::default(), syn::parse_quote!(#val)));
                        any = true;
                    }
                }
                if any {
                    done += 1;
                }
            },
            (syn::Data::Enum(e), 1) if e.variants.len() >= 2 => {
                let n = e.variants.len();
                let (a, b) = (rng.usize(n), rng.usize(n));
                if a != b {
                    let mut v: Vec<syn::Variant> = e.variants.iter().cloned().collect();
                    v.swap(a, b);
                    e.variants = v.into_iter().collect();
                    done += 1;
                }
            },
            (_, 2) => {
                // #[repr] toggled
                let had = di.attrs.iter().any(|a| a.path().is_ident("repr"));
                if had {
                    di.attrs.retain(|a| !a.path().is_ident("repr"));
                } else if matches!(di.data, syn::Data::Enum(_)) {
                    let r: syn::Ident = syn::Ident::new(*rng.pick(&["u8", "i16", "u32", "i64"]), proc_macro2::Span::call_site());
                    di.attrs.push(syn::parse_quote!(#[repr(#r)]));
                } else {
                    continue;
                }
                done += 1;
            },
            (data, 3) | (data, 4) => {
                // one field's type changes
                let mut fields: Vec<&mut syn::Field> = match data {
                    syn::Data::Struct(s) => s.fields.iter_mut().collect(),
                    syn::Data::Enum(e) => e.variants.iter_mut().flat_map(|v| v.fields.iter_mut()).collect(),
                    syn::Data::Union(u) => u.fields.named.iter_mut().collect(),
                };
                if fields.is_empty() {
                    continue;
                }
                let k = rng.usize(fields.len());
                let old = fields[k].ty.to_token_stream().to_string();
                let new_ty: syn::Type = match rng.below(5) {
                    0 => syn::parse_quote!(u64),
                    1 => syn::parse_quote!(String),
                    2 => syn::parse_str(&format!("Vec<{old}>")).ok()?,
                    3 => syn::parse_str(&format!("Option<{old}>")).ok()?,
                    _ => syn::parse_quote!(Item),
                };
                fields[k].ty = new_ty;
                done += 1;
            },
            (syn::Data::Struct(s), 5) => {
                if let syn::Fields::Named(n) = &mut s.fields {
                    if n.named.len() >= 2 {
                        let len = n.named.len();
                        let (a, b) = (rng.usize(len), rng.usize(len));
                        if a != b {
                            let mut v: Vec<syn::Field> = n.named.iter().cloned().collect();
                            v.swap(a, b);
                            n.named = v.into_iter().collect();
                            done += 1;
                        }
                    }
                }
            },
            (_, 7) => {
                // a requested trait is replaced by its sibling (Deref <-> DerefMut, PartialOrd <-> Ord, ...)
                let pairs = [("Deref", "DerefMut"), ("PartialOrd", "Ord"), ("PartialEq", "Eq"), ("Clone", "Copy"), ("Debug", "Hash")];
                let (a, b) = *rng.pick(&pairs);
                let (from, to) = if rng.chance(1, 2) { (a, b) } else { (b, a) };
                let mut changed = false;
                for at in di.attrs.iter_mut() {
                    if !at.path().is_ident("educe") {
                        continue;
                    }
                    if let syn::Meta::List(l) = &mut at.meta {
                        let toks: Vec<proc_macro2::TokenTree> = l.tokens.clone().into_iter().collect();
                        let new: proc_macro2::TokenStream = toks
                            .into_iter()
                            .map(|tt| match &tt {
                                proc_macro2::TokenTree::Ident(i) if i == from && !changed => {
                                    changed = true;
                                    proc_macro2::TokenTree::Ident(proc_macro2::Ident::new(to, i.span()))
                                },
                                _ => tt,
                            })
                            .collect();
                        l.tokens = new;
                    }
                }
                if changed {
                    done += 1;
                }
            },
            (data, 8) => {
                // the field-level requests of one field (or of every field) disappear
                let mut fields: Vec<&mut syn::Field> = match data {
                    syn::Data::Struct(s) => s.fields.iter_mut().collect(),
                    syn::Data::Enum(e) => e.variants.iter_mut().flat_map(|v| v.fields.iter_mut()).collect(),
                    syn::Data::Union(u) => u.fields.named.iter_mut().collect(),
                };
                let with: Vec<usize> = (0..fields.len()).filter(|k| fields[*k].attrs.iter().any(|a| a.path().is_ident("educe"))).collect();
                if with.is_empty() {
                    continue;
                }
                if rng.chance(1, 2) {
                    let k = *rng.pick(&with);
                    fields[k].attrs.retain(|a| !a.path().is_ident("educe"));
                } else {
                    for k in with {
                        fields[k].attrs.retain(|a| !a.path().is_ident("educe"));
                    }
                }
                done += 1;
            },
            (_, 9) => {
                // one more trait is requested
                let t = syn::Ident::new(*rng.pick(&TRAITS[..11]), proc_macro2::Span::call_site());
                di.attrs.push(syn::parse_quote!(#[educe(#t)]));
                done += 1;
            },
            (_, 6) => {
                // drop one educe attribute line (one or more requested traits disappear)
                let idx: Vec<usize> = di.attrs.iter().enumerate().filter(|(_, a)| a.path().is_ident("educe")).map(|(i, _)| i).collect();
                if idx.len() >= 2 {
                    let k = *rng.pick(&idx);
                    di.attrs.remove(k);
                    done += 1;
                }
            },
            _ => {},
        }
    }
    if done == 0 {
        return None;
    }
    let out = di.to_token_stream().to_string();
    if out == text {
        None
    } else {
        Some(out)
    }
}
