//! Harvest every `#[derive(Educe)]` item from the repository's own tests and documentation, at
//! check time, from /repo's current working tree. Works on token trees (no `syn/full`), so the
//! harness does not change the feature set syn is built with.

use std::collections::BTreeMap;
use std::path::{Path, PathBuf};

use proc_macro2::{Delimiter, TokenStream, TokenTree};

#[derive(Clone, Debug)]
pub struct Input {
    pub text: String,
    pub origin: String,
    /// ident of the type
    pub name: String,
}

fn is_punct(tt: &TokenTree, c: char) -> bool {
    matches!(tt, TokenTree::Punct(p) if p.as_char() == c)
}

fn attr_mentions_derive_educe(g: &proc_macro2::Group) -> bool {
    // [derive(.. Educe ..)] or [derive(.. educe::Educe ..)]
    let toks: Vec<TokenTree> = g.stream().into_iter().collect();
    if toks.len() != 2 {
        return false;
    }
    match (&toks[0], &toks[1]) {
        (TokenTree::Ident(i), TokenTree::Group(inner)) if i == "derive" => inner
            .stream()
            .into_iter()
            .any(|t| matches!(&t, TokenTree::Ident(i) if i == "Educe")),
        _ => false,
    }
}

/// Walk a token stream (recursively through every group) and collect items that carry
/// `#[derive(Educe)]`, as source text.
pub fn scan(ts: TokenStream, origin: &str, out: &mut Vec<Input>) {
    let toks: Vec<TokenTree> = ts.into_iter().collect();
    let mut i = 0;
    while i < toks.len() {
        // start of an attribute run?
        if is_punct(&toks[i], '#')
            && matches!(toks.get(i + 1), Some(TokenTree::Group(g)) if g.delimiter() == Delimiter::Bracket)
        {
            let start = i;
            let mut has = false;
            let mut j = i;
            while j + 1 < toks.len()
                && is_punct(&toks[j], '#')
                && matches!(&toks[j + 1], TokenTree::Group(g) if g.delimiter() == Delimiter::Bracket)
            {
                if let TokenTree::Group(g) = &toks[j + 1] {
                    if attr_mentions_derive_educe(g) {
                        has = true;
                    }
                }
                j += 2;
            }
            if has {
                // item: up to and including the first top-level `;` or brace group
                let mut k = j;
                let mut end = None;
                while k < toks.len() {
                    match &toks[k] {
                        TokenTree::Punct(p) if p.as_char() == ';' => {
                            end = Some(k);
                            break;
                        },
                        TokenTree::Group(g) if g.delimiter() == Delimiter::Brace => {
                            end = Some(k);
                            break;
                        },
                        _ => {},
                    }
                    k += 1;
                }
                if let Some(end) = end {
                    let item: TokenStream = toks[start..=end].iter().cloned().collect();
                    if let Ok(di) = syn::parse2::<syn::DeriveInput>(item.clone()) {
                        out.push(Input {
                            text: item.to_string(),
                            origin: origin.to_string(),
                            name: di.ident.to_string(),
                        });
                    }
                    // also look inside the item body? (no nested items in derive inputs)
                    i = end + 1;
                    continue;
                }
            }
            // not an Educe item: fall through and keep scanning *inside* the groups
            i = start;
        }
        if let TokenTree::Group(g) = &toks[i] {
            scan(g.stream(), origin, out);
        }
        i += 1;
    }
}

/// Rust code blocks of a markdown text (```rust ... ``` or bare ``` fences).
fn code_blocks(md: &str) -> Vec<String> {
    let mut blocks = Vec::new();
    let mut cur: Option<String> = None;
    for line in md.lines() {
        let t = line.trim_start();
        if t.starts_with("```") {
            match cur.take() {
                Some(b) => blocks.push(b),
                None => {
                    let info = t.trim_start_matches('`').trim();
                    if info.is_empty() || info.starts_with("rust") {
                        cur = Some(String::new());
                    } else {
                        cur = Some("\u{0}skip".to_string());
                    }
                },
            }
        } else if let Some(b) = cur.as_mut() {
            if !b.starts_with('\u{0}') {
                // rustdoc hidden lines
                let l = if t.starts_with("# ") { &t[2..] } else { line };
                b.push_str(l);
                b.push('\n');
            }
        }
    }
    blocks.into_iter().filter(|b| !b.starts_with('\u{0}')).collect()
}

fn lib_rs_doc(src: &str) -> String {
    // the crate documentation is one `/*! ... */` block at the top of lib.rs
    if let Some(a) = src.find("/*!") {
        if let Some(b) = src[a..].find("*/") {
            return src[a + 3..a + b].to_string();
        }
    }
    String::new()
}

fn rs_files(dir: &Path, out: &mut Vec<PathBuf>) {
    let Ok(rd) = std::fs::read_dir(dir) else { return };
    let mut entries: Vec<PathBuf> = rd.filter_map(|e| e.ok().map(|e| e.path())).collect();
    entries.sort();
    for p in entries {
        if p.is_dir() {
            rs_files(&p, out);
        } else if p.extension().map(|e| e == "rs").unwrap_or(false) {
            out.push(p);
        }
    }
}

pub struct Corpus {
    pub inputs: Vec<Input>,
    pub sites: usize,
    pub by_origin: BTreeMap<String, usize>,
}

pub fn harvest(repo: &Path) -> Corpus {
    let mut raw: Vec<Input> = Vec::new();
    let mut by_origin = BTreeMap::new();
    let mut files = Vec::new();
    rs_files(&repo.join("tests"), &mut files);
    for f in files {
        let Ok(src) = std::fs::read_to_string(&f) else { continue };
        let origin = f.strip_prefix(repo).unwrap_or(&f).display().to_string();
        if let Ok(ts) = src.parse::<TokenStream>() {
            let before = raw.len();
            scan(ts, &origin, &mut raw);
            *by_origin.entry("tests".to_string()).or_insert(0) += raw.len() - before;
        }
    }
    let docs = [
        ("src/lib.rs(doc)", std::fs::read_to_string(repo.join("src/lib.rs")).map(|s| lib_rs_doc(&s))),
        ("README.md", std::fs::read_to_string(repo.join("README.md"))),
    ];
    for (origin, text) in docs {
        let Ok(text) = text else { continue };
        for (n, block) in code_blocks(&text).into_iter().enumerate() {
            if let Ok(ts) = block.parse::<TokenStream>() {
                let before = raw.len();
                scan(ts, &format!("{origin}#block{n}"), &mut raw);
                *by_origin.entry(origin.to_string()).or_insert(0) += raw.len() - before;
            }
        }
    }
    let sites = raw.len();
    // de-duplicate by text, keep first origin; order = sorted by text hash-free (BTreeMap by text)
    let mut seen: BTreeMap<String, Input> = BTreeMap::new();
    for r in raw {
        seen.entry(r.text.clone()).or_insert(r);
    }
    let inputs: Vec<Input> = seen.into_values().collect();
    Corpus { inputs, sites, by_origin }
}
