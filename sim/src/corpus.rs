//! Harvest every `#[derive(Educe)]` item from the repository's own tests and documentation, at
//! check time, from /repo's current working tree. Works on token trees (no `syn/full`), so the
//! harness does not change the feature set syn is built with.

use std::collections::BTreeMap;
use std::path::{Path, PathBuf};

use proc_macro2::{Delimiter, TokenStream, TokenTree};

#[derive(Clone, Debug)]
pub struct Input {
    pub text: String,
    pub origin: String,
    /// ident of the type
    pub name: String,
}

fn is_punct(tt: &TokenTree, c: char) -> bool {
    matches!(tt, TokenTree::Punct(p) if p.as_char() == c)
}

fn attr_mentions_derive_educe(g: &proc_macro2::Group) -> bool {
    // [derive(.. Educe ..)] or [derive(.. educe::Educe ..)]
    let toks: Vec<TokenTree> = g.stream().into_iter().collect();
    if toks.len() != 2 {
        return false;
    }
    match (&toks[0], &toks[1]) {
        (TokenTree::Ident(i), TokenTree::Group(inner)) if i == "derive" => inner
            .stream()
            .into_iter()
            .any(|t| matches!(&t, TokenTree::Ident(i) if i == "Educe")),
        _ => false,
    }
}

/// Walk a token stream (recursively through every group) and collect items that carry
/// `#[derive(Educe)]`, as source text.
pub fn scan(ts: TokenStream, origin: &str, out: &mut Vec<Input>) {
    let toks: Vec<TokenTree> = ts.into_iter().collect();
    let mut i = 0;
    while i < toks.len() {
        // start of an attribute run?
        if is_punct(&toks[i], '#')
            && matches!(toks.get(i + 1), Some(TokenTree::Group(g)) if g.delimiter() == Delimiter::Bracket)
        {
            let start = i;
            let mut has = false;
            let mut j = i;
            while j + 1 < toks.len()
                && is_punct(&toks[j], '#')
                && matches!(&toks[j + 1], TokenTree::Group(g) if g.delimiter() == Delimiter::Bracket)
            {
                if let TokenTree::Group(g) = &toks[j + 1] {
                    if attr_mentions_derive_educe(g) {
                        has = true;
                    }
                }
                j += 2;
            }
            if has {
                // item: up to and including the first top-level `;` or brace group
                let mut k = j;
                let mut end = None;
                while k < toks.len() {
                    match &toks[k] {
                        TokenTree::Punct(p) if p.as_char() == ';' => {
                            end = Some(k);
                            break;
                        },
                        TokenTree::Group(g) if g.delimiter() == Delimiter::Brace => {
                            end = Some(k);
                            break;
                        },
                        _ => {},
                    }
                    k += 1;
                }
                if let Some(end) = end {
                    let item: TokenStream = toks[start..=end].iter().cloned().collect();
                    if let Ok(di) = syn::parse2::<syn::DeriveInput>(item.clone()) {
                        out.push(Input {
                            text: item.to_string(),
                            origin: origin.to_string(),
                            name: di.ident.to_string(),
                        });
                    }
                    // also look inside the item body? (no nested items in derive inputs)
                    i = end + 1;
                    continue;
                }
            }
            // not an Educe item: fall through and keep scanning *inside* the groups
            i = start;
        }
        if let TokenTree::Group(g) = &toks[i] {
            scan(g.stream(), origin, out);
        }
        i += 1;
    }
}

/// Rust code blocks of a markdown text (```rust ... ``` or bare ``` fences).
fn code_blocks(md: &str) -> Vec<String> {
    let mut blocks = Vec::new();
    let mut cur: Option<String> = None;
    for line in md.lines() {
        let t = line.trim_start();
        if t.starts_with("```") {
            match cur.take() {
                Some(b) => blocks.push(b),
                None => {
                    let info = t.trim_start_matches('`').trim();
                    if info.is_empty() || info.starts_with("rust") {
                        cur = Some(String::new());
                    } else {
                        cur = Some("\u{0}skip".to_string());
                    }
                },
            }
        } else if let Some(b) = cur.as_mut() {
            if !b.starts_with('\u{0}') {
                // rustdoc hidden lines
                let l = if t.starts_with("# ") { &t[2..] } else { line };
                b.push_str(l);
                b.push('\n');
            }
        }
    }
    blocks.into_iter().filter(|b| !b.starts_with('\u{0}')).collect()
}

fn lib_rs_doc(src: &str) -> String {
    // the crate documentation is one `/*! ... */` block at the top of lib.rs
    if let Some(a) = src.find("/*!") {
        if let Some(b) = src[a..].find("*/") {
            return src[a + 3..a + b].to_string();
        }
    }
    String::new()
}

fn rs_files(dir: &Path, out: &mut Vec<PathBuf>) {
    let Ok(rd) = std::fs::read_dir(dir) else { return };
    let mut entries: Vec<PathBuf> = rd.filter_map(|e| e.ok().map(|e| e.path())).collect();
    entries.sort();
    for p in entries {
        if p.is_dir() {
            rs_files(&p, out);
        } else if p.extension().map(|e| e == "rs").unwrap_or(false) {
            out.push(p);
        }
    }
}

pub struct Corpus {
    /// identifiers harvested from the crate's quote! templates: (type-like, value-like)
    pub template_idents: (Vec<String>, Vec<String>),
    pub inputs: Vec<Input>,
    pub sites: usize,
    pub by_origin: BTreeMap<String, usize>,
}

pub fn harvest(repo: &Path) -> Corpus {
    let mut raw: Vec<Input> = Vec::new();
    let mut by_origin = BTreeMap::new();
    let mut files = Vec::new();
    rs_files(&repo.join("tests"), &mut files);
    for f in files {
        let Ok(src) = std::fs::read_to_string(&f) else { continue };
        let origin = f.strip_prefix(repo).unwrap_or(&f).display().to_string();
        if let Ok(ts) = src.parse::<TokenStream>() {
            let before = raw.len();
            scan(ts, &origin, &mut raw);
            *by_origin.entry("tests".to_string()).or_insert(0) += raw.len() - before;
        }
    }
    let docs = [
        ("src/lib.rs(doc)", std::fs::read_to_string(repo.join("src/lib.rs")).map(|s| lib_rs_doc(&s))),
        ("README.md", std::fs::read_to_string(repo.join("README.md"))),
    ];
    for (origin, text) in docs {
        let Ok(text) = text else { continue };
        for (n, block) in code_blocks(&text).into_iter().enumerate() {
            if let Ok(ts) = block.parse::<TokenStream>() {
                let before = raw.len();
                scan(ts, &format!("{origin}#block{n}"), &mut raw);
                *by_origin.entry(origin.to_string()).or_insert(0) += raw.len() - before;
            }
        }
    }
    let sites = raw.len();
    // de-duplicate by text, keep first origin; order = sorted by text hash-free (BTreeMap by text)
    let mut seen: BTreeMap<String, Input> = BTreeMap::new();
    for r in raw {
        seen.entry(r.text.clone()).or_insert(r);
    }
    let inputs: Vec<Input> = seen.into_values().collect();
    // every identifier the repository's own examples write inside `#[educe(..)]`
    let mut tested: std::collections::BTreeMap<String, usize> = std::collections::BTreeMap::new();
    fn idents_in_educe(ts: TokenStream, inside: bool, out: &mut std::collections::BTreeSet<String>) {
        let toks: Vec<TokenTree> = ts.into_iter().collect();
        for i in 0..toks.len() {
            match &toks[i] {
                TokenTree::Ident(id) if inside => {
                    out.insert(id.to_string());
                },
                TokenTree::Group(g) => {
                    let educe_attr = i >= 1 && matches!(&toks[i - 1], TokenTree::Ident(id) if id == "educe");
                    idents_in_educe(g.stream(), inside || educe_attr, out);
                },
                _ => {},
            }
        }
    }
    for i in &inputs {
        if let Ok(ts) = i.text.parse::<TokenStream>() {
            let mut here = std::collections::BTreeSet::new();
            idents_in_educe(ts, false, &mut here);
            for w in here {
                *tested.entry(w).or_insert(0) += 1;
            }
        }
    }
    crate::gen::set_tested_words(&tested.into_iter().collect::<Vec<_>>());
    let template_idents = template_idents(repo);
    crate::gen::set_template_vocab(&template_idents.0, &template_idents.1);
    crate::gen::set_param_words(&param_words(repo));
    crate::gen::set_param_sites(&param_word_sites(repo));
    Corpus { template_idents, inputs, sites, by_origin }
}

/// Identifiers the crate's own `quote!` templates spell out (generic parameter names such as `H`,
/// helper type names, local bindings such as `f`, `state`, `other`): harvested at check time so
/// that the generator can give *user* items the very names the generated code uses internally.
/// String literals the macro compares identifiers against (`ident == "rank"`, `"name" | "rename" =>`,
/// `path.is_ident("bound")`): very likely names of attribute parameters and traits.
fn walk_param_words(ts: TokenStream, in_is_ident: bool, out: &mut std::collections::BTreeSet<String>) {
    let toks: Vec<TokenTree> = ts.into_iter().collect();
    for i in 0..toks.len() {
        match &toks[i] {
            TokenTree::Literal(l) => {
                let t = l.to_string();
                if t.len() >= 3 && t.len() <= 26 && t.starts_with('"') && t.ends_with('"') {
                    let name = &t[1..t.len() - 1];
                    if syn::parse_str::<syn::Ident>(name).is_err() {
                        continue;
                    }
                    let prev_eq = i >= 2 && is_punct(&toks[i - 1], '=') && is_punct(&toks[i - 2], '=');
                    let next_arrow = i + 2 < toks.len() && is_punct(&toks[i + 1], '=') && is_punct(&toks[i + 2], '>');
                    let bar = (i + 1 < toks.len() && is_punct(&toks[i + 1], '|')) || (i >= 1 && is_punct(&toks[i - 1], '|'));
                    if prev_eq || next_arrow || bar || in_is_ident {
                        out.insert(name.to_string());
                    }
                }
            },
            TokenTree::Group(g) => {
                let is_ident_call = i >= 1 && matches!(&toks[i - 1], TokenTree::Ident(id) if id == "is_ident");
                walk_param_words(g.stream(), is_ident_call, out);
            },
            _ => {},
        }
    }
}

pub fn param_words(repo: &Path) -> Vec<String> {
    param_word_sites(repo).into_iter().map(|(w, _)| w).collect::<std::collections::BTreeSet<_>>().into_iter().collect()
}

/// (word, trait whose handler's source mentions it): the trait is read off the path of the source
/// file — a directory or file whose name is a derivable trait's name in snake case
pub fn param_word_sites(repo: &Path) -> Vec<(String, Option<String>)> {
    fn camel(s: &str) -> String {
        s.split('_')
            .map(|p| {
                let mut c = p.chars();
                match c.next() {
                    Some(f) => f.to_uppercase().collect::<String>() + c.as_str(),
                    None => String::new(),
                }
            })
            .collect()
    }
    let mut files = Vec::new();
    rs_files(&repo.join("src"), &mut files);
    let mut out = std::collections::BTreeSet::new();
    for f in files {
        let tr = f
            .strip_prefix(repo)
            .ok()
            .and_then(|rel| {
                rel.components()
                    .filter_map(|c| c.as_os_str().to_str())
                    .map(|c| camel(c.trim_end_matches(".rs")))
                    .find(|c| crate::gen::is_trait_name(c))
            });
        if let Ok(src) = std::fs::read_to_string(&f) {
            if let Ok(ts) = src.parse::<TokenStream>() {
                let mut words = std::collections::BTreeSet::new();
                walk_param_words(ts, false, &mut words);
                for w in words {
                    out.insert((w, tr.clone()));
                }
            }
        }
    }
    out.into_iter().collect()
}

pub fn template_idents(repo: &Path) -> (Vec<String>, Vec<String>) {
    fn walk(ts: TokenStream, inside: bool, upper: &mut std::collections::BTreeSet<String>, lower: &mut std::collections::BTreeSet<String>) {
        let toks: Vec<TokenTree> = ts.into_iter().collect();
        let mut i = 0;
        while i < toks.len() {
            match &toks[i] {
                TokenTree::Ident(id) if !inside && (id == "quote" || id == "format_ident") => {
                    if matches!(toks.get(i + 1), Some(t) if is_punct(t, '!')) {
                        if let Some(TokenTree::Group(g)) = toks.get(i + 2) {
                            walk(g.stream(), true, upper, lower);
                            i += 3;
                            continue;
                        }
                    }
                },
                TokenTree::Ident(id) if inside => {
                    let interpolated = i > 0 && is_punct(&toks[i - 1], '#');
                    let name = id.to_string();
                    const KW: [&str; 30] = [
                        "fn", "let", "mut", "ref", "match", "if", "else", "impl", "for", "where", "self", "Self", "struct", "enum",
                        "return", "as", "in", "use", "pub", "const", "static", "type", "trait", "unsafe", "move", "loop", "while",
                        "break", "continue", "crate",
                    ];
                    if !interpolated && !KW.contains(&name.as_str()) && name.len() <= 24 {
                        if name.chars().next().map(|c| c.is_uppercase()).unwrap_or(false) {
                            upper.insert(name);
                        } else if name != "_" {
                            lower.insert(name);
                        }
                    }
                },
                TokenTree::Group(g) => walk(g.stream(), inside, upper, lower),
                // identifier-like string literals anywhere in the crate: names the macro compares
                // identifiers against or builds identifiers from (`ident == "H"`, `format_ident!("H")`)
                TokenTree::Literal(l) => {
                    let t = l.to_string();
                    if t.len() >= 3 && t.len() <= 18 && t.starts_with('"') && t.ends_with('"') {
                        let name = &t[1..t.len() - 1];
                        if syn::parse_str::<syn::Ident>(name).is_ok() {
                            if name.chars().next().map(|c| c.is_uppercase()).unwrap_or(false) {
                                upper.insert(name.to_string());
                            } else if name != "_" {
                                lower.insert(name.to_string());
                            }
                        }
                    }
                },
                _ => {},
            }
            i += 1;
        }
    }
    let mut files = Vec::new();
    rs_files(&repo.join("src"), &mut files);
    let (mut upper, mut lower) = (std::collections::BTreeSet::new(), std::collections::BTreeSet::new());
    for f in files {
        if let Ok(src) = std::fs::read_to_string(&f) {
            if let Ok(ts) = src.parse::<TokenStream>() {
                walk(ts, false, &mut upper, &mut lower);
            }
        }
    }
    (upper.into_iter().collect(), lower.into_iter().collect())
}
