//! E3: the shipped artefact in the real compiler. The proc-macro dylib built from /repo with the
//! guard OFF is loaded by a real `rustc`, which talks to it over the real `proc_macro` bridge; the
//! only thing the simulator owns is OS entropy (LD_PRELOAD shim keyed by VERIF_ENTROPY) and the
//! order of items in the crate (= the order, hence the history, of expansions in that compiler
//! session). Worlds = (entropy value, item order). Observed: the expanded source of every module
//! (`-Zunpretty=expanded`) and the diagnostics attributed to it (`--error-format=json`).

use std::collections::{BTreeMap, BTreeSet};
use std::path::{Path, PathBuf};
use std::process::Command;

use crate::batch::{signature, simple_diff, Args};
use crate::corpus;
use crate::gen::{self, GenOpts};
use crate::json::J;
use crate::prng::{mix64, Rng};
use crate::seams::real_now_s;
use crate::shrink::input_candidates;

pub struct E3Result {
    pub engine_json: J,
    pub coverage: J,
    pub violations: Vec<J>,
}

pub struct Paths {
    pub so: PathBuf,
    pub shim: PathBuf,
    pub work: PathBuf,
}

const CONTROL: &str = "mod ctrl {\n    #[derive(Debug, Clone, PartialEq, Eq, PartialOrd, Ord, Hash, Default)]\n    pub struct C<T> { a: u8, b: String, c: T }\n    #[derive(Debug, Clone, Copy, PartialEq, Hash)]\n    pub enum E { A, B(u8), C { x: u16 } }\n}\n";

pub struct Crate {
    pub src: String,
    /// (first line, last line, module id), 1-based inclusive
    pub lines: Vec<(usize, usize, usize)>,
}

pub fn build_crate(mods: &[(usize, String)], order: &[usize]) -> Crate {
    let mut src = String::from("#![allow(unused, non_camel_case_types, non_snake_case)]\nextern crate educe;\n");
    let mut line = 3usize;
    let mut lines = vec![];
    for &k in order {
        let (id, text) = &mods[k];
        // one module in eight hands the item to the derive through a `macro_rules!` fragment: the
        // macro then receives interpolated tokens (invisible delimiters, macro hygiene), an input
        // shape that cannot be written as plain text
        let m = if id % 8 == 3 {
            format!("mod m{id} {{\nuse educe::Educe;\nmacro_rules! wrap {{ ($($i:item)*) => {{ $($i)* }} }}\nwrap! {{\n{}\n}}\n}}\n", text.trim_end())
        } else {
            format!("mod m{id} {{\nuse educe::Educe;\n{}\n}}\n", text.trim_end())
        };
        let n = m.matches('\n').count();
        lines.push((line, line + n - 1, *id));
        line += n;
        src.push_str(&m);
    }
    src.push_str(CONTROL);
    src.push_str("fn main() {}\n");
    Crate { src, lines }
}

#[derive(Clone, Debug, PartialEq, Eq)]
pub struct ModObs {
    pub expanded: String,
    pub diags: Vec<String>,
}

pub struct Session {
    pub mods: BTreeMap<usize, ModObs>,
    pub control: String,
    pub unattributed: Vec<String>,
    /// whole stdout (hygiene sessions only)
    pub raw: String,
}

/// One E3 world. Everything besides the item order is a function of the single number `entropy`
/// (0 = the canonical world: real clock, real pid, no extra environment), so a replay file only
/// has to name that number.
pub struct W3 {
    pub entropy: u64,
    pub clock_off_s: i64,
    pub pid: Option<u64>,
    pub env: Vec<(String, String)>,
    /// extra compiler flags that change neither the expansion nor the `message` of a diagnostic
    /// (how diagnostics are *rendered*, optimisation, debug info, metadata, an unused `--cfg`)
    pub args: Vec<String>,
}

impl W3 {
    pub fn from_entropy(entropy: u64) -> W3 {
        if entropy == 0 {
            return W3 { entropy, clock_off_s: 0, pid: None, env: vec![], args: vec![] };
        }
        let mut r = Rng::new(mix64(entropy ^ 0x3E3E));
        let clock_off_s = match r.below(4) {
            0 => 0,
            1 => r.range(1, 86_400) as i64,
            2 => r.range(86_400, 86_400 * 3650) as i64,
            _ => -(r.range(86_400, 86_400 * 3650) as i64),
        };
        let pid = Some(r.range(300_000, 4_000_000));
        let cands: [(&str, &[&str]); 10] = [
            ("SOURCE_DATE_EPOCH", &["0", "1700000000"]),
            ("CARGO_PKG_NAME", &["a", "zzz"]),
            ("CARGO_CRATE_NAME", &["a", "my_crate"]),
            ("CARGO_PKG_VERSION", &["0.1.0", "12.3.4-beta.1"]),
            ("CARGO_PKG_RUST_VERSION", &["1.60", "1.81.0", "1.90.0", ""]),
            ("CARGO_MANIFEST_DIR", &["/sim/ws/a", "/sim/ws/b"]),
            ("OUT_DIR", &["/sim/out-1", "/sim/out-2"]),
            ("PROFILE", &["debug", "release"]),
            ("LANG", &["C", "tr_TR.UTF-8"]),
            ("TZ", &["UTC", "Asia/Tokyo"]),
        ];
        let mut env = vec![];
        for (k, vs) in cands {
            if r.chance(1, 2) {
                env.push((k.to_string(), r.pick(vs).to_string()));
            }
        }
        let mut args = vec![];
        match r.below(4) {
            0 => args.push("--json=diagnostic-short".to_string()),
            1 => args.push("--json=diagnostic-rendered-ansi".to_string()),
            _ => {},
        }
        for a in [
            "-Copt-level=3",
            "-Cdebuginfo=2",
            "-Cmetadata=0123abcd",
            "--cfg=verif_world_flag",
            "-Ccodegen-units=1",
        ] {
            if r.chance(1, 3) {
                args.push(a.to_string());
            }
        }
        W3 { entropy, clock_off_s, pid, env, args }
    }
}

pub fn run_rustc(p: &Paths, tag: &str, krate: &Crate, entropy: u64) -> Result<Session, String> {
    run_rustc_mode(p, tag, krate, entropy, false)
}

pub fn run_rustc_mode(p: &Paths, tag: &str, krate: &Crate, entropy: u64, hygiene: bool) -> Result<Session, String> {
    std::fs::create_dir_all(&p.work).map_err(|e| e.to_string())?;
    let src_path = p.work.join(format!("e3-{tag}.rs"));
    std::fs::write(&src_path, &krate.src).map_err(|e| e.to_string())?;
    let w = W3::from_entropy(entropy);
    let mut cmd = Command::new("rustc");
    if w.clock_off_s != 0 {
        cmd.env("VERIF_CLOCK_OFFSET_S", w.clock_off_s.to_string());
    }
    if let Some(pid) = w.pid {
        cmd.env("VERIF_PID", pid.to_string());
    }
    for (k, v) in &w.env {
        cmd.env(k, v);
    }
    // the sessions' disk: a directory of this E3 run (emptied at its start), not the machine's /tmp
    let disk = p.work.join("disk");
    let _ = std::fs::create_dir_all(disk.join("tmp"));
    // (HOME stays: the rustup proxy needs it to find the toolchain)
    cmd.env("TMPDIR", disk.join("tmp"));
    let out = cmd
        .arg("--edition").arg("2021")
        .arg(if hygiene { "-Zunpretty=expanded,hygiene" } else { "-Zunpretty=expanded" })
        .arg("--error-format=json")
        // (not in hygiene sessions: a `--cfg` or codegen option interns symbols of its own and
        // shifts the compiler's symbol numbering, which the byte-for-byte comparison would see)
        .args(if hygiene { &[][..] } else { &w.args[..] })
        .arg("--crate-name").arg("e3crate")
        .arg("--extern").arg(format!("educe={}", p.so.display()))
        .arg(&src_path)
        .env("RUSTC_BOOTSTRAP", "1")
        .env("LD_PRELOAD", &p.shim)
        .env("VERIF_ENTROPY", entropy.to_string())
        .current_dir(&p.work)
        .output()
        .map_err(|e| format!("cannot run rustc: {e}"))?;
    let stdout = String::from_utf8_lossy(&out.stdout).into_owned();
    let stderr = String::from_utf8_lossy(&out.stderr).into_owned();
    if !stdout.contains("mod ctrl") {
        return Err(format!(
            "rustc produced no expanded output (status {}): {}",
            out.status,
            stderr.chars().take(600).collect::<String>()
        ));
    }
    // ---- split the expanded source into modules (pretty-printer puts top-level items at column 0)
    let mut mods: BTreeMap<usize, ModObs> = BTreeMap::new();
    let mut control = String::new();
    let mut cur: Option<(String, String)> = None;
    for l in stdout.lines() {
        if cur.is_none() {
            if let Some(rest) = l.strip_prefix("mod ") {
                if let Some(name) = rest.strip_suffix(" {") {
                    cur = Some((name.to_string(), String::new()));
                    continue;
                }
                if let Some(name) = rest.strip_suffix(" {}").or(rest.strip_suffix(" { }")) {
                    if let Some(id) = name.strip_prefix('m').and_then(|x| x.parse::<usize>().ok()) {
                        mods.insert(id, ModObs { expanded: String::new(), diags: vec![] });
                    }
                    continue;
                }
            }
        } else if l == "}" {
            let (name, body) = cur.take().unwrap();
            if name == "ctrl" {
                control = body;
            } else if let Some(id) = name.strip_prefix('m').and_then(|x| x.parse::<usize>().ok()) {
                mods.insert(id, ModObs { expanded: body, diags: vec![] });
            }
        } else if let Some((_, body)) = cur.as_mut() {
            body.push_str(l);
            body.push('\n');
        }
    }
    // ---- attribute diagnostics to modules through the primary span's line
    let mut unattributed = vec![];
    for l in stderr.lines() {
        if !l.starts_with('{') {
            continue;
        }
        let Ok(j) = J::parse(l) else { continue };
        let level = j.get("level").and_then(|x| x.str()).unwrap_or("");
        let msg = j.get("message").and_then(|x| x.str()).unwrap_or("");
        if level != "error" && level != "warning" {
            continue;
        }
        // educe's own diagnostics (`compile_error!`) carry no error code; rustc's follow-up errors
        // on the generated code (unresolved names, ...) do. Both are compared: where rustc attaches
        // an error inside generated code is the only place the *location* of generated tokens shows.
        let code = j.get("code").and_then(|c| c.get("code")).and_then(|x| x.str()).unwrap_or("").to_string();
        if msg.starts_with("aborting due to") || msg.contains("warning emitted") || msg.contains("warnings emitted") {
            continue;
        }
        let spans = j.get("spans").and_then(|x| x.arr()).cloned().unwrap_or_default();
        let primary = spans
            .iter()
            .find(|s| matches!(s.get("is_primary"), Some(J::Bool(true))))
            .or(spans.first());
        let line = primary.and_then(|s| s.get("line_start")).and_then(|x| x.u64()).unwrap_or(0) as usize;
        let col = primary.and_then(|s| s.get("column_start")).and_then(|x| x.u64()).unwrap_or(0) as usize;
        // where the span ends, relative to its start (lines, column)
        let line_end = primary.and_then(|s| s.get("line_end")).and_then(|x| x.u64()).unwrap_or(0) as usize;
        let col_end = primary.and_then(|s| s.get("column_end")).and_then(|x| x.u64()).unwrap_or(0) as usize;
        let extent = format!("+{}:{}", line_end.saturating_sub(line), col_end);
        let mut children = String::new();
        for c in j.get("children").and_then(|x| x.arr()).unwrap_or(&vec![]) {
            children.push_str(" | ");
            children.push_str(c.get("message").and_then(|x| x.str()).unwrap_or(""));
        }
        match krate.lines.iter().find(|(a, b, _)| line >= *a && line <= *b) {
            Some((a, _, id)) => {
                let rel = line - a;
                let d = if code.is_empty() {
                    format!("{level}@+{rel}:{col}..{extent}: {msg}{children}")
                } else {
                    // rustc's own diagnostic: only its code and WHERE it points. Its wording is
                    // rustc's business and legitimately follows the environment the worlds vary
                    // (e.g. the `cargo add` hint appears when CARGO_* variables are set).
                    format!("{level}[{code}]@+{rel}:{col}..{extent}")
                };
                mods.entry(*id).or_insert_with(|| ModObs { expanded: String::new(), diags: vec![] }).diags.push(d);
            },
            None => unattributed.push(format!("{level}@{line}: {msg}")),
        }
    }
    // (emission order is kept: in which order several problems are reported is output too)
    Ok(Session { mods, control, unattributed, raw: if hygiene { stdout } else { String::new() } })
}

/// Hygiene-annotated expansion, made comparable across positions and item orders: every
/// `/* symbol#ctxt */` annotation is replaced by the *transparency* of that syntax context
/// (Opaque = def site, SemiOpaque = mixed site, Transparent = call site; the symbol number and the
/// context number themselves depend on what else is in the crate), all blanks are dropped, and the
/// text is split into the crate's modules.
pub fn hygiene_normalise(stdout: &str) -> BTreeMap<usize, String> {
    // context id -> transparency
    let mut kinds: BTreeMap<u64, String> = BTreeMap::new();
    if let Some(i) = stdout.find("SyntaxContexts:") {
        for l in stdout[i..].lines() {
            if let Some(rest) = l.strip_prefix('#') {
                if let Some((id, tail)) = rest.split_once(':') {
                    if let (Ok(id), Some(k)) = (id.trim().parse::<u64>(), tail.rsplit(',').next()) {
                        kinds.insert(id, k.trim().trim_end_matches(')').to_string());
                    }
                }
            }
        }
    }
    let body = match stdout.find("\n/*\nExpansions:") {
        Some(i) => &stdout[..i],
        None => stdout,
    };
    let b = body.as_bytes();
    let mut out = String::with_capacity(body.len());
    let mut i = 0;
    while i < b.len() {
        if b[i] == b'/' && i + 1 < b.len() && b[i + 1] == b'*' {
            let end = body[i + 2..].find("*/").map(|e| i + 2 + e).unwrap_or(b.len());
            let inner = body[i + 2..end.min(body.len())].trim();
            if let Some((sym, ctx)) = inner.split_once('#') {
                if !sym.is_empty() && sym.bytes().all(|c| c.is_ascii_digit()) {
                    if let Ok(c) = ctx.trim().parse::<u64>() {
                        out.push('`');
                        out.push_str(kinds.get(&c).map(|s| s.as_str()).unwrap_or("?"));
                        out.push('`');
                    }
                }
            }
            i = (end + 2).min(b.len());
        } else if b[i].is_ascii_whitespace() {
            i += 1;
        } else {
            // copy one UTF-8 character
            let ch = body[i..].chars().next().unwrap();
            out.push(ch);
            i += ch.len_utf8();
        }
    }
    // split into modules `modm<id>`..`{ ... }`
    let mut mods = BTreeMap::new();
    let ob = out.as_bytes();
    let mut pos = 0;
    while let Some(k) = out[pos..].find("modm") {
        let start = pos + k;
        let mut j = start + 4;
        let mut id = 0usize;
        let mut digits = 0;
        while j < ob.len() && ob[j].is_ascii_digit() {
            id = id * 10 + (ob[j] - b'0') as usize;
            j += 1;
            digits += 1;
        }
        pos = j;
        if digits == 0 {
            continue;
        }
        // skip the annotation of the module name, expect `{`
        let Some(open_rel) = out[j..].find('{') else { break };
        if open_rel > 24 {
            continue;
        }
        let open = j + open_rel;
        let mut depth = 0i32;
        let mut e = open;
        while e < ob.len() {
            match ob[e] {
                b'{' => depth += 1,
                b'}' => {
                    depth -= 1;
                    if depth == 0 {
                        break;
                    }
                },
                _ => {},
            }
            e += 1;
        }
        if e < ob.len() {
            mods.insert(id, out[open..=e].to_string());
            pos = e;
        }
    }
    mods
}

fn paths(a: &Args) -> Paths {
    let verif = PathBuf::from(a.get("verif", "/verif"));
    Paths {
        so: PathBuf::from(a.get("e3-so", verif.join("build/target-real/release/libeduce.so").to_str().unwrap())),
        shim: PathBuf::from(a.get("shim", verif.join("build/entropy_shim.so").to_str().unwrap())),
        work: PathBuf::from(a.get("e3-work", verif.join("build/e3").to_str().unwrap())),
    }
}

fn obs_to_outcome(o: &ModObs) -> String {
    if o.diags.is_empty() {
        o.expanded.clone()
    } else {
        format!("{}\n// diagnostics:\n{}", o.expanded, o.diags.join("\n"))
    }
}

fn e3_signature(a: &ModObs, b: &ModObs) -> J {
    if a.diags != b.diags {
        return J::obj()
            .set("kind", J::s("diagnostic_choice"))
            .set("first", J::s(a.diags.join(" ; ")))
            .set("second", J::s(b.diags.join(" ; ")));
    }
    // same token-level classifier as E1 (rustc's pretty-printed source re-tokenises fine)
    let strip = |s: &str| -> String {
        // drop the module preamble (`use educe::Educe;` and the echoed item) by keeping impls only
        match s.find("impl") {
            Some(i) => s[i..].to_string(),
            None => s.to_string(),
        }
    };
    signature(&strip(&a.expanded), &strip(&b.expanded))
}

/// does module text `input` (alone in a crate) differ between the two worlds?
fn differs(p: &Paths, tag: &str, input: &str, e1: u64, e2: u64) -> Option<(ModObs, ModObs)> {
    let mods = vec![(0usize, input.to_string())];
    let k = build_crate(&mods, &[0]);
    let s1 = run_rustc(p, &format!("{tag}-a"), &k, e1).ok()?;
    let s2 = run_rustc(p, &format!("{tag}-b"), &k, e2).ok()?;
    let (a, b) = (s1.mods.get(&0)?, s2.mods.get(&0)?);
    if a != b {
        Some((a.clone(), b.clone()))
    } else {
        None
    }
}

fn write_e3_replay(dir: &Path, name: &str, j: &J) -> Option<PathBuf> {
    std::fs::create_dir_all(dir).ok()?;
    let p = dir.join(name);
    std::fs::write(&p, j.to_string_pretty()).ok()?;
    Some(p)
}

pub fn run(a: &Args, tier: &str, seed: u64) -> Result<E3Result, String> {
    let p = paths(a);
    if !p.so.exists() {
        return Err(format!("{} missing (run ./check build)", p.so.display()));
    }
    if !p.shim.exists() {
        return Err(format!("{} missing (run ./check build)", p.shim.display()));
    }
    let thorough = tier == "thorough";
    let t0 = real_now_s();
    let _ = std::fs::remove_dir_all(p.work.join("disk"));
    let repo = PathBuf::from(a.get("repo", "/repo"));
    let replay_dir = PathBuf::from(a.get("replay-dir", "/verif/replays"));
    let corp = corpus::harvest(&repo);
    let mut rng = Rng::new(mix64(seed ^ 0xE3E3_E3E3));

    // ---- workload
    let n_corpus = if thorough { corp.inputs.len() } else { a.u64("e3-corpus", 90) as usize };
    let n_gen = if thorough { a.u64("e3-gen", 600) } else { a.u64("e3-gen", 150) } as usize;
    let n_entropy = if thorough { a.u64("e3-entropy", 24) } else { a.u64("e3-entropy", 4) };
    let n_orders = if thorough { a.u64("e3-orders", 6) } else { a.u64("e3-orders", 2) } as usize;
    let crate_size = a.u64("e3-crate-size", 120) as usize;

    let mut all: Vec<(usize, String)> = vec![];
    let mut idx: Vec<usize> = (0..corp.inputs.len()).collect();
    rng.shuffle(&mut idx);
    // Into-bearing corpus inputs first: they are the ones with several items per request
    idx.sort_by_key(|i| if corp.inputs[*i].text.contains("Into") { 0 } else { 1 });
    for i in idx.into_iter().take(n_corpus) {
        all.push((all.len(), corp.inputs[i].text.clone()));
    }
    for k in 0..n_gen {
        let opts = GenOpts { error_pct: 35, into_heavy: rng.chance(1, 2) };
        let t = if rng.chance(1, 6) { gen::param_probe(&mut rng, &format!("E{k}")) } else { gen::generate(&mut rng, &format!("E{k}"), &opts) };
        all.push((all.len(), t));
    }

    let mut invocations = 0u64;
    let mut modules_compared = 0u64;
    let mut pairs: BTreeSet<(usize, u64, u64)> = BTreeSet::new();
    let mut nontrivial_pairs: BTreeSet<(usize, u64)> = BTreeSet::new();
    let mut violations: Vec<J> = vec![];
    let mut with_diag = 0u64;
    let mut multi_item = 0u64;
    let mut samples: Vec<J> = vec![];
    let mut control_ref: Option<String> = None;
    let mut crates = 0u64;
    let max_minimised = a.u64("e3-max-violations", 2) as usize;
    let jobs = a.u64("e3-jobs", 16) as usize;
    let n_hygiene = if thorough { a.u64("e3-hygiene", 6) } else { a.u64("e3-hygiene", 2) };
    let mut hygiene_sessions = 0u64;
    let mut hygiene_modules_compared = 0u64;
    let mut hygiene_violations = 0u64;
    let mut further_differing = 0u64;

    'outer: for (ci, chunk) in all.chunks(crate_size).enumerate() {
        crates += 1;
        let mods: Vec<(usize, String)> = chunk.to_vec();
        let mut reference: BTreeMap<usize, (ModObs, u64, usize)> = BTreeMap::new();
        let mut flagged: BTreeSet<usize> = BTreeSet::new();
        let mut order_srcs: Vec<String> = vec![];
        let mut hygiene_ref: Option<(u64, String)> = None;
        let mut hygiene_mod_ref: BTreeMap<usize, (String, u64, usize)> = BTreeMap::new();
        // plan every session of this crate first (all PRNG draws happen here, sequentially) ...
        struct Planned {
            oi: usize,
            order_seed: u64,
            entropy: u64,
            krate: std::sync::Arc<Crate>,
            hygiene: bool,
        }
        let mut planned: Vec<Planned> = vec![];
        for oi in 0..n_orders {
            let mut order: Vec<usize> = (0..mods.len()).collect();
            let order_seed = if oi == 0 { 0 } else { rng.next_u64() };
            if oi > 0 {
                let mut r = Rng::new(order_seed);
                r.shuffle(&mut order);
                // sometimes a subset: a different *set* of predecessors, not just another order
                if r.chance(1, 2) {
                    let keep = order.len() - r.usize(order.len() / 2 + 1);
                    order.truncate(keep.max(1));
                }
            }
            let krate = std::sync::Arc::new(build_crate(&mods, &order));
            order_srcs.push(krate.src.clone());
            for ei in 0..n_entropy {
                let entropy = if oi == 0 && ei == 0 { 0 } else { 1 + ei + 1000 * oi as u64 + 100_000 * ci as u64 };
                planned.push(Planned { oi, order_seed, entropy, krate: krate.clone(), hygiene: false });
                // the first item order is also expanded with syntax-context annotations: the whole
                // crate, hygiene marks included, must be identical across worlds
                if ei < n_hygiene {
                    planned.push(Planned { oi, order_seed, entropy, krate: krate.clone(), hygiene: true });
                }
            }
        }
        // ... then run the compiler sessions in parallel (they are independent OS processes) and
        // compare the results sequentially, in planned order
        let results: Vec<Result<Session, String>> = {
            let next = std::sync::atomic::AtomicUsize::new(0);
            let slots: Vec<std::sync::Mutex<Option<Result<Session, String>>>> =
                planned.iter().map(|_| std::sync::Mutex::new(None)).collect();
            std::thread::scope(|sc| {
                for _ in 0..jobs.min(planned.len()) {
                    sc.spawn(|| loop {
                        let k = next.fetch_add(1, std::sync::atomic::Ordering::SeqCst);
                        if k >= planned.len() {
                            break;
                        }
                        let pl = &planned[k];
                        let r = run_rustc_mode(&p, &format!("c{ci}s{k}"), &pl.krate, pl.entropy, pl.hygiene);
                        *slots[k].lock().unwrap() = Some(r);
                    });
                }
            });
            slots.into_iter().map(|m| m.into_inner().unwrap().unwrap_or(Err("session not run".into()))).collect()
        };
        for (pl, sess) in planned.iter().zip(results.into_iter()) {
            {
                let (oi, order_seed, entropy) = (pl.oi, pl.order_seed, pl.entropy);
                let ei = if oi == 0 && entropy == 0 { 0 } else { 1 };
                let krate = &pl.krate;
                let sess = sess?;
                if pl.hygiene {
                    invocations += 1;
                    hygiene_sessions += 1;
                    // (a) per module, hygiene kinds instead of numbers: comparable across positions/orders
                    for (id, text) in hygiene_normalise(&sess.raw) {
                        hygiene_modules_compared += 1;
                        match hygiene_mod_ref.get(&id) {
                            None => {
                                hygiene_mod_ref.insert(id, (text, entropy, oi));
                            },
                            Some((t0, e0, o0)) => {
                                if *t0 != text && hygiene_violations == 0 {
                                    hygiene_violations += 1;
                                    let j = J::obj()
                                        .set("property", J::s("C16"))
                                        .set("engine", J::s("E3 real rustc + shipped libeduce.so + LD_PRELOAD shim (hygiene of one module, context numbers replaced by their transparency)"))
                                        .set("verif_seed", J::s(seed.to_string()))
                                        .set("signature", J::obj().set("kind", J::s("hygiene_of_module")).set("module", J::i(id as u64)))
                                        .set("scenario", J::obj()
                                            .set("crate", J::s(krate.src.clone()))
                                            .set("crate_first", J::s(order_srcs[*o0].clone()))
                                            .set("hygiene_module", J::Bool(true))
                                            .set("module", J::i(id as u64))
                                            .set("entropy", J::Arr(vec![J::s(e0.to_string()), J::s(entropy.to_string())])))
                                        .set("diff", J::s(simple_diff(&t0.replace('`', " ` "), &text.replace('`', " ` "))));
                                    let path = write_e3_replay(&replay_dir, &format!("C16-E3HM-{seed}-{ci}-{id}.json"), &j);
                                    violations.push(
                                        J::obj()
                                            .set("engine", J::s("E3"))
                                            .set("replay", path.map(|p| J::s(p.display().to_string())).unwrap_or(J::Null))
                                            .set("signature", J::obj().set("kind", J::s("hygiene_of_module")).set("module", J::i(id as u64))),
                                    );
                                }
                            },
                        }
                    }
                    // (b) the whole crate, byte for byte, among sessions with the same item order
                    if oi != 0 {
                        continue;
                    }
                    match &hygiene_ref {
                        None => hygiene_ref = Some((entropy, sess.raw.clone())),
                        Some((e0, raw0)) => {
                            if *raw0 != sess.raw && hygiene_violations == 0 {
                                hygiene_violations += 1;
                                let j = J::obj()
                                    .set("property", J::s("C16"))
                                    .set("engine", J::s("E3 real rustc + shipped libeduce.so + LD_PRELOAD shim (hygiene-annotated expansion of the whole crate)"))
                                    .set("verif_seed", J::s(seed.to_string()))
                                    .set("signature", J::obj().set("kind", J::s("hygiene_or_whole_crate")))
                                    .set("scenario", J::obj()
                                        .set("crate", J::s(krate.src.clone()))
                                        .set("hygiene", J::Bool(true))
                                        .set("module", J::i(0))
                                        .set("entropy", J::Arr(vec![J::s(e0.to_string()), J::s(entropy.to_string())])))
                                    .set("diff", J::s(simple_diff(raw0, &sess.raw)));
                                let path = write_e3_replay(&replay_dir, &format!("C16-E3H-{seed}-{ci}.json"), &j);
                                violations.push(
                                    J::obj()
                                        .set("engine", J::s("E3"))
                                        .set("replay", path.map(|p| J::s(p.display().to_string())).unwrap_or(J::Null))
                                        .set("signature", J::obj().set("kind", J::s("hygiene_or_whole_crate"))),
                                );
                            }
                        },
                    }
                    continue;
                }

                invocations += 1;
                match &control_ref {
                    None => control_ref = Some(sess.control.clone()),
                    Some(c) => {
                        if *c != sess.control {
                            return Err("control module (std derives only) expanded differently between worlds: the environment, not educe, is nondeterministic".into());
                        }
                    },
                }
                for (id, obs) in &sess.mods {
                    modules_compared += 1;
                    pairs.insert((*id, entropy, order_seed));
                    let n_impl = obs.expanded.matches("\n    impl").count() + obs.expanded.matches("\nimpl").count();
                    if n_impl >= 2 || !obs.diags.is_empty() {
                        nontrivial_pairs.insert((*id, entropy ^ mix64(order_seed)));
                    }
                    if oi == 0 && ei == 0 {
                        if !obs.diags.is_empty() {
                            with_diag += 1;
                        }
                        if n_impl >= 2 {
                            multi_item += 1;
                        }
                        if samples.len() < 2 && n_impl >= 2 {
                            samples.push(
                                J::obj()
                                    .set("module", J::i(*id as u64))
                                    .set("input", J::s(mods.iter().find(|(i, _)| i == id).map(|(_, t)| t.clone()).unwrap_or_default()))
                                    .set("expanded_hash", J::s(format!("{:016x}", crate::scenario::fnv64(&obs.expanded))))
                                    .set("worlds", J::s(format!("{n_entropy} entropy values x {n_orders} item orders"))),
                            );
                        }
                    }
                    match reference.get(id) {
                        None => {
                            reference.insert(*id, (obs.clone(), entropy, oi));
                        },
                        Some((r, e0, o0)) => {
                            if r != obs && flagged.insert(*id) {
                                if violations.len() >= max_minimised {
                                    further_differing += 1;
                                    continue;
                                }
                                // ---- violation: isolate to a one-module crate, shrink the input
                                let text = mods.iter().find(|(i, _)| i == id).map(|(_, t)| t.clone()).unwrap_or_default();
                                let mut cur_text = text.clone();
                                let tag = format!("v{ci}-{id}");
                                let mut isolated = differs(&p, &tag, &cur_text, *e0, entropy);
                                let mut evals = 1;
                                if isolated.is_some() {
                                    loop {
                                        let mut improved = false;
                                        for cand in input_candidates(&cur_text) {
                                            if crate::shrink::tok_size(&cand) >= crate::shrink::tok_size(&cur_text) || evals >= 40 {
                                                continue;
                                            }
                                            evals += 1;
                                            if let Some(d) = differs(&p, &tag, &cand, *e0, entropy) {
                                                cur_text = cand;
                                                isolated = Some(d);
                                                improved = true;
                                                break;
                                            }
                                        }
                                        if !improved {
                                            break;
                                        }
                                    }
                                }
                                let (oa, ob, scen) = match &isolated {
                                    Some((x, y)) => (
                                        x.clone(),
                                        y.clone(),
                                        J::obj()
                                            .set("crate", J::s(build_crate(&[(0, cur_text.clone())], &[0]).src))
                                            .set("module", J::i(0))
                                            .set("entropy", J::Arr(vec![J::s(e0.to_string()), J::s(entropy.to_string())])),
                                    ),
                                    None => {
                                        // needs its neighbours (history inside the compiler session): keep both crates
                                        (
                                            r.clone(),
                                            obs.clone(),
                                            J::obj()
                                                .set("crate", J::s(krate.src.clone()))
                                                .set("crate_first", J::s(order_srcs[*o0].clone()))
                                                .set("module", J::i(*id as u64))
                                                .set("entropy", J::Arr(vec![J::s(e0.to_string()), J::s(entropy.to_string())]))
                                                .set("note", J::s("did not reproduce with the module alone; the full crates of both worlds are kept")),
                                        )
                                    },
                                };
                                let sig = e3_signature(&oa, &ob);
                                let j = J::obj()
                                    .set("property", J::s("C16"))
                                    .set("engine", J::s("E3 real rustc + shipped libeduce.so + LD_PRELOAD entropy shim"))
                                    .set("verif_seed", J::s(seed.to_string()))
                                    .set("input", J::s(cur_text.clone()))
                                    .set("signature", sig.clone())
                                    .set("scenario", scen)
                                    .set("observed", J::Arr(vec![J::s(obs_to_outcome(&oa)), J::s(obs_to_outcome(&ob))]))
                                    .set("diff", J::s(simple_diff(&obs_to_outcome(&oa), &obs_to_outcome(&ob))))
                                    .set("minimisation", J::obj().set("rustc_pairs", J::i(evals as u64)));
                                let path = write_e3_replay(&replay_dir, &format!("C16-E3-{seed}-{ci}-{id}.json"), &j);
                                violations.push(
                                    J::obj()
                                        .set("engine", J::s("E3"))
                                        .set("replay", path.map(|p| J::s(p.display().to_string())).unwrap_or(J::Null))
                                        .set("signature", sig)
                                        .set("input", J::s(cur_text)),
                                );
                            }
                        },
                    }
                }
                if violations.len() >= max_minimised {
                    break 'outer;
                }
            }
        }
    }
    let wall = real_now_s() - t0;
    let coverage = J::obj()
        .set("rustc_invocations", J::i(invocations))
        .set("crates", J::i(crates))
        .set("modules", J::i(all.len() as u64))
        .set("module_expansions_compared", J::i(modules_compared))
        .set("distinct_module_world_pairs", J::i(pairs.len() as u64))
        .set("distinct_nontrivial_module_world_pairs", J::i(nontrivial_pairs.len() as u64))
        .set("modules_with_diagnostics", J::i(with_diag))
        .set("modules_with_multiple_items", J::i(multi_item))
        .set("entropy_values_per_order", J::i(n_entropy))
        .set("item_orders", J::i(n_orders as u64))
        .set("hygiene_annotated_sessions", J::i(hygiene_sessions))
        .set("hygiene_normalised_module_expansions_compared", J::i(hygiene_modules_compared))
        .set("worlds", J::s("entropy value (=> hasher keys, wall-clock offset, pid, CARGO_*/LANG/TZ/SOURCE_DATE_EPOCH environment) x item order"))
        .set("control_module_stable", J::Bool(true))
        .set("further_differing_modules_not_minimised", J::i(further_differing))
        .set("samples", J::Arr(samples))
        .set("wall_s", J::Num(wall));
    let engine_json = J::obj()
        .set("name", J::s("E3 real rustc"))
        .set("real", J::s("the proc-macro dylib built from /repo with the guard off, the proc_macro bridge, rustc's expansion and diagnostics"))
        .set("stub", J::s("LD_PRELOAD shim only: getrandom keyed by VERIF_ENTROPY, CLOCK_REALTIME offset, pid; plus chosen CARGO_*/LANG/TZ environment"))
        .set("expansions", J::i(modules_compared));
    Ok(E3Result { engine_json, coverage, violations })
}

pub fn replay(j: &J, path: &Path) -> i32 {
    let a = Args { map: BTreeMap::new() };
    let p = paths(&a);
    let Some(sc) = j.get("scenario") else {
        eprintln!("no scenario");
        return 2;
    };
    let module = sc.get("module").and_then(|x| x.u64()).unwrap_or(0) as usize;
    let ents: Vec<u64> = sc
        .get("entropy")
        .and_then(|x| x.arr())
        .map(|v| v.iter().filter_map(|e| e.str().and_then(|s| s.parse().ok())).collect())
        .unwrap_or_default();
    if ents.len() != 2 {
        eprintln!("scenario needs two entropy values");
        return 2;
    }
    let src_b = sc.get("crate").and_then(|x| x.str()).unwrap_or("").to_string();
    let src_a = sc.get("crate_first").and_then(|x| x.str()).map(|s| s.to_string()).unwrap_or(src_b.clone());
    let line_table = |src: &str| -> Vec<(usize, usize, usize)> {
        // recover module line ranges from the source text
        let mut v = vec![];
        let mut start: Option<(usize, usize)> = None;
        for (n, l) in src.lines().enumerate() {
            let ln = n + 1;
            if let Some(rest) = l.strip_prefix("mod m") {
                if let Some(id) = rest.strip_suffix(" {").and_then(|x| x.parse::<usize>().ok()) {
                    start = Some((ln, id));
                }
            } else if l == "}" {
                if let Some((s, id)) = start.take() {
                    v.push((s, ln, id));
                }
            }
        }
        v
    };
    let ka = Crate { lines: line_table(&src_a), src: src_a };
    let kb = Crate { lines: line_table(&src_b), src: src_b };
    if matches!(sc.get("hygiene_module"), Some(J::Bool(true))) {
        return match (run_rustc_mode(&p, "replay-a", &ka, ents[0], true), run_rustc_mode(&p, "replay-b", &kb, ents[1], true)) {
            (Ok(x), Ok(y)) => {
                let (mx, my) = (hygiene_normalise(&x.raw), hygiene_normalise(&y.raw));
                match (mx.get(&module), my.get(&module)) {
                    (Some(a), Some(b)) if a != b => {
                        println!("replay (E3, hygiene of module m{module}): differs between the two worlds");
                        println!("{}", simple_diff(&a.replace('`', " ` "), &b.replace('`', " ` ")));
                        println!("VIOLATION property=C16 replay={}", path.display());
                        1
                    },
                    (Some(_), Some(_)) => {
                        println!("replay (E3, hygiene of module): outcomes agree (no violation)");
                        0
                    },
                    _ => {
                        eprintln!("module m{module} not found in the hygiene output");
                        2
                    },
                }
            },
            (Err(e), _) | (_, Err(e)) => {
                eprintln!("harness error: {e}");
                2
            },
        };
    }
    if matches!(sc.get("hygiene"), Some(J::Bool(true))) {
        return match (run_rustc_mode(&p, "replay-a", &ka, ents[0], true), run_rustc_mode(&p, "replay-b", &kb, ents[1], true)) {
            (Ok(x), Ok(y)) if x.raw != y.raw => {
                println!("replay (E3, hygiene): the annotated expansion of the crate differs between worlds {} and {}", ents[0], ents[1]);
                println!("{}", simple_diff(&x.raw, &y.raw));
                println!("VIOLATION property=C16 replay={}", path.display());
                1
            },
            (Ok(_), Ok(_)) => {
                println!("replay (E3, hygiene): outcomes agree (no violation)");
                0
            },
            (Err(e), _) | (_, Err(e)) => {
                eprintln!("harness error: {e}");
                2
            },
        };
    }
    let (sa, sb) = match (run_rustc(&p, "replay-a", &ka, ents[0]), run_rustc(&p, "replay-b", &kb, ents[1])) {
        (Ok(a), Ok(b)) => (a, b),
        (Err(e), _) | (_, Err(e)) => {
            eprintln!("harness error: {e}");
            return 2;
        },
    };
    match (sa.mods.get(&module), sb.mods.get(&module)) {
        (Some(x), Some(y)) if x != y => {
            println!("replay (E3): module m{module} differs between entropy {} and {}", ents[0], ents[1]);
            println!("{}", simple_diff(&obs_to_outcome(x), &obs_to_outcome(y)));
            println!("VIOLATION property=C16 replay={}", path.display());
            1
        },
        (Some(_), Some(_)) => {
            println!("replay (E3): outcomes agree (no violation)");
            0
        },
        _ => {
            eprintln!("module m{module} not found in rustc output");
            2
        },
    }
}
