//! E3: the shipped proc-macro artefact inside real rustc (filled in below).
use crate::batch::Args;
use crate::json::J;

pub struct E3Result {
    pub engine_json: J,
    pub coverage: J,
    pub violations: Vec<J>,
}

pub fn run(_a: &Args, _tier: &str, _seed: u64) -> Result<E3Result, String> {
    Err("E3 not built yet".into())
}

pub fn replay(_j: &J) -> i32 {
    eprintln!("E3 replay not built yet");
    2
}
